#!/bin/bash
# Builds the instrumenter and warms the Go build cache, from files on disk only.
set -u
cd "$(dirname "$0")"
export GOTOOLCHAIN=local GOSUMDB=off GOFLAGS=-mod=mod GOPROXY=off
GO="${VERIF_GO:-/opt/veriftools/go1.26.8/bin/go}"
mkdir -p tools/bin evidence replays
( cd tools/instrument && "$GO" build -o ../bin/instrument . ) || { echo "INFRA-ERROR cannot build instrumenter"; exit 2; }
S="$(mktemp -d /var/tmp/jdsim.setup.XXXXXX)"
trap 'rm -rf "$S"' EXIT
./build.sh "$S" || exit 2
echo "setup ok"
