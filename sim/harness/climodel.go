package main

import (
	"fmt"
	"strconv"
	"strings"

	lib "github.com/josephburnett/jd/lib"
	jd "github.com/josephburnett/jd/v2"
	"github.com/josephburnett/jd/v2/verif/simos"
)

// Expect is what the reference model says a jd process must do.
//
// The model is written from the property statement (C14) and README "Command
// line usage": it parses argv by the documented rules of Go's flag package,
// maps flags to library options as documented, calls the library of the tree
// under test for the payload bytes ("prints exactly what the library renders"),
// and applies the contract: output to -o or stdout, never both; status 0 no
// difference, 1 difference, 2 any error; -p and -t succeed with 0.
type Expect struct {
	Defined   bool   // false: the model has no opinion (Why says why)
	Why       string // reason when undefined, or which rule produced the verdict
	Status    int
	Stdout    []byte
	StdoutAny bool   // stdout content is not specified (usage text, version text)
	OutFile   string // file that must hold OutData afterwards ("" = no file changes)
	OutData   []byte
	NonEmpty  bool // the library diff was non-empty (for coverage rules)
	Mode      string
	Lib       string // "v2" or "v1"
}

type cliFlags struct {
	color, gitDiffDriver, mset, patch, set, version, yaml bool
	v2                                                    bool
	format, output, setkeys, translate                    string
	port                                                  int
	precision                                             float64
	args                                                  []string
	help                                                  bool
	err                                                   string
}

var boolFlags = map[string]bool{"color": true, "git-diff-driver": true, "mset": true, "p": true, "set": true, "version": true, "yaml": true, "v2": true}
var valueFlags = map[string]bool{"f": true, "o": true, "setkeys": true, "t": true, "port": true, "precision": true}

// parseArgv follows the command-line syntax documented for package flag.
func parseArgv(argv []string) cliFlags {
	f := cliFlags{v2: true}
	i := 0
	for i < len(argv) {
		s := argv[i]
		if len(s) < 2 || s[0] != '-' {
			break
		}
		minus := 1
		if s[1] == '-' {
			minus = 2
			if len(s) == 2 { // "--" terminates the flags
				i++
				break
			}
		}
		name := s[minus:]
		if len(name) == 0 || name[0] == '-' || name[0] == '=' {
			f.err = "bad flag syntax"
			return f
		}
		i++
		hasValue := false
		value := ""
		if j := strings.IndexByte(name[1:], '='); j >= 0 {
			value = name[j+2:]
			name = name[:j+1]
			hasValue = true
		}
		switch {
		case boolFlags[name]:
			b := true
			if hasValue {
				v, err := strconv.ParseBool(value)
				if err != nil {
					f.err = "invalid boolean value"
					return f
				}
				b = v
			}
			switch name {
			case "color":
				f.color = b
			case "git-diff-driver":
				f.gitDiffDriver = b
			case "mset":
				f.mset = b
			case "p":
				f.patch = b
			case "set":
				f.set = b
			case "version":
				f.version = b
			case "yaml":
				f.yaml = b
			case "v2":
				f.v2 = b
			}
		case valueFlags[name]:
			if !hasValue {
				if i >= len(argv) {
					f.err = "flag needs an argument"
					return f
				}
				value = argv[i]
				i++
			}
			switch name {
			case "f":
				f.format = value
			case "o":
				f.output = value
			case "setkeys":
				f.setkeys = value
			case "t":
				f.translate = value
			case "port":
				n, err := strconv.ParseInt(value, 0, strconv.IntSize)
				if err != nil {
					f.err = "invalid value for -port"
					return f
				}
				f.port = int(n)
			case "precision":
				x, err := strconv.ParseFloat(value, 64)
				if err != nil {
					f.err = "invalid value for -precision"
					return f
				}
				f.precision = x
			}
		case name == "h" || name == "help":
			f.help = true
			return f
		default:
			f.err = "flag provided but not defined"
			return f
		}
	}
	f.args = argv[i:]
	return f
}

func baseName(s string) string {
	if i := strings.LastIndexByte(s, '/'); i >= 0 {
		return s[i+1:]
	}
	return s
}

// cliModel computes the expectation for one process. fs is the file system
// before the process starts (not modified); stdin is what it would read.
func cliModel(bin, arg0 string, argv []string, fs *simos.FS, stdin []byte) (e Expect) {
	if simos.TreeHasGoroutines && simos.T != nil && !simos.Scheduled() {
		// the library of this tree starts goroutines: the model's own library
		// calls run under the scheduler too (from the first go statement on),
		// so that a goroutine that panics or blocks cannot take the harness down
		simos.ArmTrip(true)
		e = cliModel1(bin, arg0, argv, fs, stdin)
		trip := simos.Tripped()
		simos.ArmTrip(false)
		if !trip {
			return e
		}
		r := simos.RunScheduled(strSeed(strings.Join(argv, " ")), func() { e = cliModel1(bin, arg0, argv, fs, stdin) })
		harvestSched()
		switch {
		case r.Crash != nil:
			e = Expect{Defined: false, Why: "a goroutine of the library panicked inside the model: " + r.Crash.Value}
		case r.Deadlock:
			e = Expect{Defined: false, Why: "the library deadlocked inside the model"}
		}
		return e
	}
	return cliModel1(bin, arg0, argv, fs, stdin)
}

func cliModel1(bin, arg0 string, argv []string, fs *simos.FS, stdin []byte) (e Expect) {
	defer func() {
		if r := recover(); r != nil {
			e = Expect{Defined: false, Why: fmt.Sprintf("library panicked inside the model: %v", r)}
		}
	}()
	if baseName(arg0) == "jd-github-action" {
		return Expect{Why: "github action personality is not modelled"}
	}
	f := parseArgv(argv)
	fail := func(why string) Expect { return Expect{Defined: true, Status: 2, Why: why} }
	if f.help {
		return Expect{Defined: true, Status: 0, StdoutAny: true, Why: "-h prints usage"}
	}
	if f.err != "" {
		return fail("flag error: " + f.err)
	}
	if f.version {
		return Expect{Defined: true, Status: 0, StdoutAny: true, Why: "-version"}
	}
	if f.port != 0 {
		return Expect{Why: "-port is not modelled (network stub)"}
	}
	useV1 := bin == "top" && !f.v2
	libName := "v2"
	if useV1 {
		libName = "v1"
	}
	if f.precision != 0 && (f.set || f.mset) {
		return fail("-precision with -set/-mset")
	}
	if f.set && f.mset {
		return Expect{Why: "-set together with -mset is not a documented combination"}
	}
	var keys []string
	if f.setkeys != "" {
		for _, k := range strings.Split(f.setkeys, ",") {
			t := strings.TrimSpace(k)
			if t == "" {
				return fail("empty set key")
			}
			keys = append(keys, t)
		}
	}
	// -setkeys together with -set or -mset (the way the v1 library needs it):
	// the options are handed to the library in the order the usage text lists
	// the flags (-set, -mset, -setkeys), so the array reading is the one of
	// -set / -mset and the keys identify objects within it
	readFile := func(name string) ([]byte, bool) {
		name = fs.Resolve(name)
		if name == simos.DevStdin {
			// the standard input under its name
			return stdin, true
		}
		if fs.Dirs[name] || fs.Unreadable[name] {
			return nil, false
		}
		d, ok := fs.Files[name]
		return d, ok
	}
	canWrite := func(name string) bool {
		name = fs.Resolve(name)
		if fs.Dirs[name] || !fs.Dirs[dirOfName(name)] {
			return false
		}
		if _, ok := fs.Files[name]; ok && fs.ReadOnly[name] {
			return false
		}
		return true
	}
	emit := func(status int, out string, nonEmpty bool, mode string) Expect {
		x := Expect{Defined: true, Status: status, NonEmpty: nonEmpty, Mode: mode, Lib: libName}
		if f.output == "" {
			x.Stdout = []byte(out)
			return x
		}
		if !canWrite(f.output) {
			return fail("-o target cannot be written")
		}
		x.OutFile, x.OutData = fs.Resolve(f.output), []byte(out) // through a symbolic link, to what it points to
		return x
	}

	if f.gitDiffDriver {
		if useV1 {
			return Expect{Why: "-git-diff-driver with -v2=false is not a documented combination"}
		}
		if len(f.args) != 7 {
			return fail("git diff driver needs 7 arguments")
		}
		if f.output != "" {
			return Expect{Why: "-git-diff-driver with -o is not a documented combination"}
		}
		a, ok := readFile(f.args[1])
		if !ok {
			return fail("missing file")
		}
		b, ok := readFile(f.args[4])
		if !ok {
			return fail("missing file")
		}
		out, _, err := modelDiffV2(f, keys, string(a), string(b))
		if err != nil {
			return fail("diff error: " + err.Error())
		}
		return Expect{Defined: true, Status: 0, Stdout: []byte(out), Mode: "gitdiff", Lib: "v2", NonEmpty: out != ""}
	}
	if f.patch && f.translate != "" {
		return fail("-p with -t")
	}
	mode := "diff"
	if f.patch {
		mode = "patch"
	}
	if f.translate != "" {
		mode = "translate"
	}
	var a, b []byte
	var ok bool
	switch mode {
	case "diff", "patch":
		switch len(f.args) {
		case 1:
			if a, ok = readFile(f.args[0]); !ok {
				return fail("missing file")
			}
			b = stdin
		case 2:
			if a, ok = readFile(f.args[0]); !ok {
				return fail("missing file")
			}
			if b, ok = readFile(f.args[1]); !ok {
				return fail("missing file")
			}
		default:
			return Expect{Defined: true, Status: 2, StdoutAny: true, Why: "usage"}
		}
	default:
		switch len(f.args) {
		case 0:
			a = stdin
		case 1:
			if a, ok = readFile(f.args[0]); !ok {
				return fail("missing file")
			}
		default:
			return Expect{Defined: true, Status: 2, StdoutAny: true, Why: "usage"}
		}
	}
	switch mode {
	case "diff":
		var out string
		var nonEmpty bool
		var err error
		if useV1 {
			out, nonEmpty, err = modelDiffV1(f, keys, string(a), string(b))
		} else {
			out, nonEmpty, err = modelDiffV2(f, keys, string(a), string(b))
		}
		if err != nil {
			return fail("diff error: " + err.Error())
		}
		st := 0
		if nonEmpty {
			st = 1
		}
		return emit(st, out, nonEmpty, "diff")
	case "patch":
		var out string
		var err error
		if useV1 {
			out, err = modelPatchV1(f, keys, string(a), string(b))
		} else {
			out, err = modelPatchV2(f, keys, string(a), string(b))
		}
		if err != nil {
			return fail("patch error: " + err.Error())
		}
		return emit(0, out, len(strings.TrimSpace(string(a))) > 0, "patch")
	default:
		var out string
		var err error
		if useV1 {
			out, err = modelTranslateV1(f.translate, string(a))
		} else {
			out, err = modelTranslateV2(f.translate, string(a))
		}
		if err != nil {
			return fail("translate error: " + err.Error())
		}
		return emit(0, out, len(strings.TrimSpace(string(a))) > 0, "translate")
	}
}

func dirOfName(name string) string {
	i := strings.LastIndexByte(name, '/')
	if i < 0 {
		return "."
	}
	if i == 0 {
		return "/"
	}
	return name[:i]
}

func v2Options(f cliFlags, keys []string) []jd.Option {
	var o []jd.Option
	if f.set {
		o = append(o, jd.SET)
	}
	if f.mset {
		o = append(o, jd.MULTISET)
	}
	if len(keys) > 0 {
		o = append(o, jd.SetKeys(keys...))
	}
	if f.format == "merge" {
		o = append(o, jd.MERGE)
	}
	if f.precision != 0 {
		o = append(o, jd.Precision(f.precision))
	}
	return o
}

func v1Metadata(f cliFlags, keys []string) []lib.Metadata {
	var o []lib.Metadata
	if f.set {
		o = append(o, lib.SET)
	}
	if f.mset {
		o = append(o, lib.MULTISET)
	}
	if len(keys) > 0 {
		o = append(o, lib.Setkeys(keys...))
	}
	if f.format == "merge" {
		o = append(o, lib.MERGE)
	}
	if f.precision != 0 {
		o = append(o, lib.SetPrecision(f.precision))
	}
	return o
}

func modelDiffV2(f cliFlags, keys []string, a, b string) (string, bool, error) {
	read := jd.ReadJsonString
	if f.yaml {
		read = jd.ReadYamlString
	}
	an, err := read(a)
	if err != nil {
		return "", false, err
	}
	bn, err := read(b)
	if err != nil {
		return "", false, err
	}
	d := an.Diff(bn, v2Options(f, keys)...)
	nonEmpty := len(d) > 0
	switch f.format {
	case "", "jd":
		if f.color {
			return d.Render(jd.COLOR), nonEmpty, nil
		}
		return d.Render(), nonEmpty, nil
	case "patch":
		s, err := d.RenderPatch()
		return s, nonEmpty, err
	case "merge":
		s, err := d.RenderMerge()
		return s, nonEmpty, err
	}
	return "", false, fmt.Errorf("invalid format %q", f.format)
}

func modelDiffV1(f cliFlags, keys []string, a, b string) (string, bool, error) {
	read := lib.ReadJsonString
	if f.yaml {
		read = lib.ReadYamlString
	}
	an, err := read(a)
	if err != nil {
		return "", false, err
	}
	bn, err := read(b)
	if err != nil {
		return "", false, err
	}
	d := an.Diff(bn, v1Metadata(f, keys)...)
	nonEmpty := len(d) > 0
	switch f.format {
	case "", "jd":
		if f.color {
			return d.Render(lib.COLOR), nonEmpty, nil
		}
		return d.Render(), nonEmpty, nil
	case "patch":
		s, err := d.RenderPatch()
		return s, nonEmpty, err
	case "merge":
		s, err := d.RenderMerge()
		return s, nonEmpty, err
	}
	return "", false, fmt.Errorf("invalid format %q", f.format)
}

func modelPatchV2(f cliFlags, keys []string, p, a string) (string, error) {
	var d jd.Diff
	var err error
	switch f.format {
	case "", "jd":
		d, err = jd.ReadDiffString(p)
	case "patch":
		d, err = jd.ReadPatchString(p)
	case "merge":
		d, err = jd.ReadMergeString(p)
	default:
		return "", fmt.Errorf("invalid format %q", f.format)
	}
	if err != nil {
		return "", err
	}
	read := jd.ReadJsonString
	if f.yaml {
		read = jd.ReadYamlString
	}
	an, err := read(a)
	if err != nil {
		return "", err
	}
	bn, err := an.Patch(d)
	if err != nil {
		return "", err
	}
	if f.yaml {
		return bn.Yaml(v2Options(f, keys)...), nil
	}
	return bn.Json(v2Options(f, keys)...), nil
}

func modelPatchV1(f cliFlags, keys []string, p, a string) (string, error) {
	var d lib.Diff
	var err error
	switch f.format {
	case "", "jd":
		d, err = lib.ReadDiffString(p)
	case "patch":
		d, err = lib.ReadPatchString(p)
	case "merge":
		d, err = lib.ReadMergeString(p)
	default:
		return "", fmt.Errorf("invalid format %q", f.format)
	}
	if err != nil {
		return "", err
	}
	read := lib.ReadJsonString
	if f.yaml {
		read = lib.ReadYamlString
	}
	an, err := read(a)
	if err != nil {
		return "", err
	}
	bn, err := an.Patch(d)
	if err != nil {
		return "", err
	}
	if f.yaml {
		return bn.Yaml(v1Metadata(f, keys)...), nil
	}
	return bn.Json(v1Metadata(f, keys)...), nil
}

func modelTranslateV2(t, a string) (string, error) {
	switch t {
	case "jd2patch":
		d, err := jd.ReadDiffString(a)
		if err != nil {
			return "", err
		}
		return d.RenderPatch()
	case "patch2jd":
		d, err := jd.ReadPatchString(a)
		if err != nil {
			return "", err
		}
		return d.Render(), nil
	case "jd2merge":
		d, err := jd.ReadDiffString(a)
		if err != nil {
			return "", err
		}
		return d.RenderMerge()
	case "merge2jd":
		d, err := jd.ReadMergeString(a)
		if err != nil {
			return "", err
		}
		return d.Render(), nil
	case "json2yaml":
		n, err := jd.ReadJsonString(a)
		if err != nil {
			return "", err
		}
		return n.Yaml(), nil
	case "yaml2json":
		n, err := jd.ReadYamlString(a)
		if err != nil {
			return "", err
		}
		return n.Json(), nil
	}
	return "", fmt.Errorf("unsupported translation %q", t)
}

func modelTranslateV1(t, a string) (string, error) {
	switch t {
	case "jd2patch":
		d, err := lib.ReadDiffString(a)
		if err != nil {
			return "", err
		}
		return d.RenderPatch()
	case "patch2jd":
		d, err := lib.ReadPatchString(a)
		if err != nil {
			return "", err
		}
		return d.Render(), nil
	case "jd2merge":
		d, err := lib.ReadDiffString(a)
		if err != nil {
			return "", err
		}
		return d.RenderMerge()
	case "merge2jd":
		d, err := lib.ReadMergeString(a)
		if err != nil {
			return "", err
		}
		return d.Render(), nil
	case "json2yaml":
		n, err := lib.ReadJsonString(a)
		if err != nil {
			return "", err
		}
		return n.Yaml(), nil
	case "yaml2json":
		n, err := lib.ReadYamlString(a)
		if err != nil {
			return "", err
		}
		return n.Json(), nil
	}
	return "", fmt.Errorf("unsupported translation %q", t)
}

// v1SetEqual asks the v1 library whether two JSON arrays are equal as sets.
func v1SetEqual(a, b string) (eq bool) {
	defer func() {
		if recover() != nil {
			eq = false
		}
	}()
	x, err := lib.ReadJsonString(a)
	if err != nil {
		return false
	}
	y, err := lib.ReadJsonString(b)
	if err != nil {
		return false
	}
	return x.Equals(y, lib.SET)
}
