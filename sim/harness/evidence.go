package main

import (
	"encoding/json"
	"fmt"
	"os"
	"path/filepath"
	"sort"
)

var rules = map[string]string{
	"C14": "Each run draws one CLI session (1-3 real jd processes on the simulated OS: diff, round trip, translate, git-diff-driver, misuse, patch of a foreign document; both binaries and -v2=false; flags, carrier, stdin/file, -o, sector size, chunk plans all seeded) and evaluates the clauses of C14 on it: base (reference model: status, stdout, files, round trip under an independent comparator), stdin-equiv, xbin, and one fault case per I/O step and applicable failure followed by a fault-free retry. evaluations = evaluated (session, clause) cases. A case's signature is clause x session kind x per process (binary/mode/format, flag set, stdin/file, sequence of step kinds with injected fault kinds, exit status); it is non-trivial when some process rendered a non-empty diff or produced output with status 0/1. distinct_nontrivial = number of distinct signatures among non-trivial cases.",
	"C13": "Each run draws a document lineage, a producer jd process writing a patch artefact (any binary, format, flags; sometimes the v1 dialect), storage/transport faults on the artefact (torn and short writes, kill, power loss with sector mixing and zero fill, bit flips, duplicate append, stale artefact) and a consumer (jd -p / jd -t, possibly with format/flag/carrier/version skew, on a stale/ahead/branch target, possibly with stdin faults), and feeds the same bytes to the library readers and Patch directly. evaluations = evaluated cases (one consumer execution plus the direct library calls each). Signature = producer config x fault kinds that fired x consumer config x consumer outcome class (accepted / rejected) x per-reader accept/reject; non-trivial when the artefact was non-empty and at least one fault or skew actually took effect. distinct_nontrivial = distinct signatures among non-trivial cases.",
	"C15": "Each run draws a world (documents A, B; diffs under every option set; diffs read back from merge/patch/native text) and a history of up to 24 read-only calls (Diff, Equals, Render, Render COLOR, RenderPatch, RenderMerge, Json, Yaml, Read*String) on the shared values while every map range inside jd is permuted by the simulator; after each call output is compared with the same call on pristine deep copies under canonical order, every shared value is fingerprinted against its pristine twin, and at the end each live diff must patch like its never-rendered twin; half of the histories are then re-executed in another call order on fresh copies and must return the same outputs, and the coordinator compares a sample of histories between a process that ran nothing before and one that ran six other histories first. evaluations = histories. Signature = set of call classes that occurred (Diff, Equals, Json/Yaml, Render, RenderPatch, RenderMerge, Read) x diff shape class (any multi-hunk diff, any multi-value hunk, any void addition) x merge/set readings present x map-order mode; non-trivial when a shared diff has >= 2 hunks, a multi-value hunk or a void addition. distinct_nontrivial = distinct signatures among non-trivial histories.",
}

var components = map[string]any{
	"real":    []string{"github.com/josephburnett/jd/v2 (all of it)", "github.com/josephburnett/jd/lib (all of it)", "main.go and v2/jd/main.go bodies: flag definitions, mode selection, option translation, error paths", "gopkg.in/yaml.v2, encoding/json, go-openapi/jsonpointer, yudai/golcs", "package flag's parser (a private FlagSet per binary)"},
	"stub":    []string{"os (files, symbolic links to files and directories, named pipes, /dev/stdin, stdin, stdout, stderr, exit, env, fsync, seek), io/ioutil, printing half of fmt, log (timestamp from the logical clock), path/filepath (Abs on the simulated working directory; the rest is the real package), os/signal (handlers can be installed, nothing delivers signals), net/http (serving fails at once), os/exec (no subprocess), math/rand (fixed seed)", "time and context deadlines (simulated clock: steady / slow / expired), in the mains and in both libraries; on this tree nothing reads a clock, see coverage.probes clock-read-by-code-under-test", "sync (locks that block on channels and yield after every wake-up), in the mains and in both libraries; used only by trees that contain a go statement"},
	"changed": []string{"every map range in jd goes through the order seam (canonical order unless the history engine permutes it)", "os.Exit is a panic recovered by the simulator", "func main renamed Main, package main renamed", "after exit, kill or the step limit the process is gone: deferred code of the program can no longer touch the simulated OS", "trees that contain a go statement only: go statements carry identities, yield points at synchronisation statements, function and loop bodies, receive-only selects polled in simulator-chosen order, every process and library call that starts a goroutine runs in a testing/synctest bubble under a seeded scheduler (this tree contains no go statement: dormant)"},
}

func writeEvidence(verif, prop, tier string, seed uint64, cfg tierCfg, total *Stats, distinct, nontrivial int, samples []json.RawMessage,
	violations, inconclusive int, wall, simWall float64, endedBy map[string]int, det string, fid fidelityResult, knownLines []string, workers int) {
	var unreached []string
	for _, p := range expectedProbes[prop] {
		if total.Probes[p] == 0 {
			unreached = append(unreached, p)
		}
	}
	sort.Strings(unreached)
	sm := make([]any, 0, len(samples))
	for _, s := range samples {
		var x any
		if json.Unmarshal(s, &x) == nil {
			sm = append(sm, x)
		}
	}
	if len(sm) == 0 {
		sm = append(sm, "no non-trivial sample was captured in this run")
	}
	perHour := 0.0
	if simWall > 0 {
		perHour = float64(total.Runs) / simWall * 3600
	}
	cov := map[string]any{
		"evaluations":                           total.Cases,
		"distinct_nontrivial":                   nontrivial,
		"distinct_signatures":                   distinct,
		"rule":                                  rules[prop],
		"samples":                               sm,
		"simulated_runs":                        total.Runs,
		"runs_per_hour":                         int64(perHour),
		"seeds_per_hour":                        int64(perHour),
		"simulated_processes":                   total.Procs,
		"library_calls":                         total.LibCalls,
		"simulated_time":                        fmt.Sprintf("%d I/O steps (logical clock: one tick per step; jd has no timers)", total.Steps),
		"fault_kinds_fired":                     total.Fired,
		"clauses_evaluated":                     total.Clauses,
		"probes":                                total.Probes,
		"unreached":                             orEmpty(unreached),
		"map_range_sites_permuted_nontrivially": total.MapSites,
		"components":                            components,
		"determinism_selftest":                  det,
		"fidelity_selftest":                     fid,
		"workers":                               workers,
		"batch_ended_by":                        endedBy,
		"inconclusive_cases":                    inconclusive,
		"known_findings":                        orEmpty(knownLines),
		"exhaustive":                            false,
	}
	ev := map[string]any{
		"property_id": prop,
		"tier":        tier,
		"seed":        seed,
		"level":       "exploration",
		"coverage":    cov,
		"assumptions": []string{
			"the simulated OS is faithful to the real one for the calls jd makes (cross-checked fault-free against the unmodified binaries in every run of C13/C14)",
			"every map-range order chosen by the seam is one the Go specification allows",
			"seeded sampling, not enumeration: a clean batch is evidence, not proof",
			"Go toolchain go1.26.8; jd built from /repo's working tree at check time",
		},
		"wall_s":     wall,
		"violations": violations,
	}
	b, _ := json.MarshalIndent(ev, "", " ")
	dir := filepath.Join(verif, "evidence")
	if d := os.Getenv("VERIF_EVIDENCE_DIR"); d != "" {
		dir = d // development aid: sensitivity runs keep their output out of /verif
	}
	os.MkdirAll(dir, 0o755)
	if err := os.WriteFile(filepath.Join(dir, prop+".json"), b, 0o644); err != nil {
		infra("cannot write evidence: %v", err)
	}
}

// expectedProbes lists rare conditions each engine is supposed to reach; one
// stuck at zero is listed under "unreached" in the evidence file.
var expectedProbes = map[string][]string{
	"C14": {"round-trip-judged", "stdin-crossed-4096", "o-write-failed-after-some-sectors", "status-judged-against-documents"},
	"C13": {"damaged-artefact-accepted", "consumer-rejected-with-status-2", "library-error-reported-as-status-2", "patch-accepted-on-a-stale-or-foreign-target", "operator-written-artefact-read"},
	"C15": {"multi-add-hunk-rendered-as-json-patch", "void-addition-rendered-as-merge-patch", "hand-written-merge-hunks-rendered-as-merge-patch", "merge-patch-read-under-permuted-map-order", "live-document-patched-in-place-with-live-diff", "map-range-with-3+-keys-permuted", "history-re-executed-in-another-order", "history-compared-between-cold-and-warm-process", "history-compared-with-and-without-fresh-package-state-in-one-long-process"},
}

func orEmpty(s []string) []string {
	if s == nil {
		return []string{}
	}
	return s
}
