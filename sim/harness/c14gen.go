package main

import (
	"strconv"
	"strings"

	"github.com/josephburnett/jd/v2/verif/simos"
)

// flagSpec is one option of an invocation before it is rendered into argv.
type flagSpec struct {
	name  string
	value string // "" for a bare boolean
	isVal bool
	eq    bool // boolean with an explicit value: only the -name=value form is legal
}

// renderArgv renders flags (in a seeded order and syntax) followed by the
// positional arguments.
func renderArgv(c *Chooser, flags []flagSpec, pos []string) []string {
	// seeded shuffle
	fl := append([]flagSpec(nil), flags...)
	for i := len(fl) - 1; i > 0; i-- {
		j := c.Int(i + 1)
		fl[i], fl[j] = fl[j], fl[i]
	}
	var argv []string
	for _, f := range fl {
		dash := "-"
		if c.Chance(1, 6) {
			dash = "--"
		}
		if f.eq {
			argv = append(argv, dash+f.name+"="+f.value)
		} else if f.isVal {
			if c.Chance(1, 2) {
				argv = append(argv, dash+f.name+"="+f.value)
			} else {
				argv = append(argv, dash+f.name, f.value)
			}
		} else {
			if c.Chance(1, 8) {
				argv = append(argv, dash+f.name+"="+[]string{"true", "1", "t", "T", "TRUE", "True"}[c.Int(6)])
			} else {
				argv = append(argv, dash+f.name)
			}
			if c.Chance(1, 30) {
				// given twice, first switched off: the last one wins
				argv = append([]string{"-" + f.name + "=false"}, argv...)
			}
		}
	}
	if len(pos) > 0 && c.Chance(1, 12) {
		argv = append(argv, "--")
	}
	return append(argv, pos...)
}

// invocation is the semantic description of a diff configuration.
type invocation struct {
	bin       string
	v1        bool
	yaml      bool
	arrays    string // list set mset setkeys
	format    string // jd patch merge
	precision float64
	color     bool
	keyStyle  int
	// twoKeys: -setkeys names two keys, "id,ns"; every keyed member then
	// carries an "ns" whose value is another member's "id" value, so that two
	// members may hold the same pair of values under exchanged keys
	twoKeys bool
}

// keys lists the identity keys of the invocation.
func (iv invocation) keys() []string {
	if iv.twoKeys {
		return []string{"id", "ns"}
	}
	return []string{"id"}
}

// keysArg is the -setkeys argument: the keys may carry blanks around them
// (the README's "-setkeys a, b" form; they are trimmed).
func (iv invocation) keysArg() string {
	if iv.twoKeys {
		return []string{"id,ns", "ns,id", "id, ns", " id ,ns "}[iv.keyStyle%4]
	}
	return []string{"id", "id", " id", "id "}[iv.keyStyle%4]
}

func (iv invocation) flags() []flagSpec {
	var f []flagSpec
	if iv.v1 {
		f = append(f, flagSpec{"v2", "false", true, true})
	}
	if iv.yaml {
		f = append(f, flagSpec{name: "yaml"})
	}
	switch iv.arrays {
	case "set":
		f = append(f, flagSpec{name: "set"})
	case "mset":
		f = append(f, flagSpec{name: "mset"})
	case "setkeys":
		f = append(f, flagSpec{"setkeys", iv.keysArg(), true, false})
	case "set+keys":
		f = append(f, flagSpec{name: "set"}, flagSpec{"setkeys", iv.keysArg(), true, false})
	case "mset+keys":
		f = append(f, flagSpec{name: "mset"}, flagSpec{"setkeys", iv.keysArg(), true, false})
	case "set+mset":
		// not a documented combination (the model has no opinion), but
		// whatever it does must not depend on chance
		f = append(f, flagSpec{name: "set"}, flagSpec{name: "mset"})
	}
	if iv.format != "jd" || iv.keyStyle == 3 {
		f = append(f, flagSpec{"f", iv.format, true, false}) // "-f jd" may also be spelled out
	}
	if iv.precision != 0 {
		f = append(f, flagSpec{"precision", strconv.FormatFloat(iv.precision, 'g', -1, 64), true, false})
	}
	return f
}

func genInvocation(c *Chooser) invocation {
	iv := invocation{bin: "v2", format: "jd", arrays: "list"}
	switch c.Pick(5, 3, 2) {
	case 1:
		iv.bin = "top"
	case 2:
		iv.bin, iv.v1 = "top", true
	}
	iv.yaml = c.Chance(1, 4)
	iv.keyStyle = c.Int(4)
	iv.arrays = []string{"list", "list", "list", "set", "mset", "setkeys", "list", "list", "set", "mset", "setkeys", "set+keys", "mset+keys", "set+mset"}[c.Int(14)]
	iv.format = []string{"jd", "jd", "patch", "merge"}[c.Int(4)]
	if (iv.arrays == "list" || iv.arrays == "setkeys") && c.Chance(1, 8) {
		iv.precision = []float64{0.001, 0.5, 1}[c.Int(3)]
	}
	if strings.Contains(iv.arrays, "keys") && c.Chance(1, 3) {
		iv.twoKeys = true
	}
	return iv
}

// withNS gives every array member that carries an "id" a second identity key
// "ns", a function of the id alone (so a member keeps it through a lineage):
// ordinals 1 and 2, 4 and 5, ... point at each other, so the members 1 and 2
// of one array hold the same two values under exchanged keys; members 0, 3, ...
// hold one value under both keys.
func withNS(v *Val) *Val {
	if v == nil {
		return nil
	}
	v = v.clone()
	for _, c := range containers(v, nil) {
		if c.K != 'a' {
			continue
		}
		for _, e := range c.Elems {
			if e.K != 'o' {
				continue
			}
			id, ok := e.get("id")
			if !ok {
				continue
			}
			o := ordinalOf(id)
			switch {
			case o < 0 || o%3 == 0:
				// 0, 3, 6 ...: the same value under both keys
			case o%3 == 1:
				o++
			default:
				o--
			}
			kind := 0
			switch id.K {
			case 's':
				kind = 1
			case 'a':
				kind = 2
			case 'o':
				kind = 3
			}
			e.set("ns", idVal(kind, o))
		}
	}
	return v
}

// deepWrap puts both documents under the same chain of 2 to 7 single-purpose
// objects. Every level has the key that leads further down plus unchanged
// neighbours sorting before and after it.
func deepWrap(c *Chooser, a, b *Val) (*Val, *Val) {
	n := c.Range(2, 7)
	for i := 0; i < n; i++ {
		k := []string{"spec", "m", "template", "b", "items"}[c.Int(5)]
		wrap := func(v *Val) *Val {
			o := &Val{K: 'o'}
			if i%2 == 0 {
				o.set("a0", vn(float64(i)))
			}
			o.set(k, v)
			o.set("zz", vs("z"))
			if i%3 == 0 {
				o.set("zzz", &Val{K: 'a', Elems: []*Val{vn(1), vn(2)}})
			}
			return o
		}
		a, b = wrap(a), wrap(b)
	}
	return a, b
}

func docText(c *Chooser, v *Val, yaml bool) string {
	if v == nil {
		return ""
	}
	if yaml {
		if c.Chance(1, 3) {
			return v.JSON(c.Int(3)) // JSON is flow-style YAML
		}
		y := v.YAML()
		switch c.Int(8) {
		case 0:
			// a uniformly indented document is still the same document
			lines := strings.Split(strings.TrimSuffix(y, "\n"), "\n")
			for i := range lines {
				lines[i] = "  " + lines[i]
			}
			y = strings.Join(lines, "\n") + "\n"
		case 1:
			y = "---\n" + y
		case 2:
			y = "\n" + y + "\n"
		}
		return y
	}
	s := v.JSON(c.Int(3))
	if c.Chance(1, 5) {
		s += "\n"
	}
	return s
}

func genPlan(c *Chooser) ([]int, bool) {
	var plan []int
	switch c.Int(6) {
	case 0:
		plan = nil
	case 1:
		plan = []int{1}
	case 2:
		plan = []int{4096, 1, 4095}
	case 3:
		plan = []int{c.Range(1, 7), 0, c.Range(1, 5000)}
	case 4:
		n := c.Range(1, 5)
		for i := 0; i < n; i++ {
			plan = append(plan, c.Range(0, 600))
		}
	default:
		plan = []int{4097, 3}
	}
	return plan, c.Chance(1, 2)
}

// genSession14 generates one fault-free session.
func genSession14(c *Chooser) Session {
	g := genCfg(c)
	iv := genInvocation(c)
	if strings.Contains(iv.arrays, "keys") {
		g.KeyedArr = true
	}
	if iv.format == "merge" {
		g.Nulls = false
	}
	if iv.format == "patch" && c.Chance(3, 4) {
		g.NumLikeKey = false
	}
	if iv.yaml && c.Chance(1, 12) {
		g.YAMLFloats = true
	}
	if iv.yaml && c.Chance(1, 15) {
		g.YAMLKeys = true
	}
	if c.Chance(1, 120) {
		g.Huge = true
	}
	docs := lineage(c, g, 2)
	a, b := docs[0], docs[1]
	if g.Huge && b.K == 'o' {
		// the whole large sub-document goes away (or becomes a number): one
		// very long "- [...]" line in the native format
		if c.Chance(1, 2) {
			b.del("huge")
		} else {
			b.set("huge", vn(1))
		}
	}
	if c.Chance(1, 10) && !g.Huge {
		b = a.clone() // equal inputs: exit status 0
	}
	if !g.Huge && iv.arrays != "list" && !(iv.arrays == "setkeys" && iv.v1) && c.Chance(1, 5) {
		// the same document with its arrays reordered: no difference under the flags
		b = shuffleArrays(c, a, iv.arrays == "set")
		if c.Chance(1, 2) {
			b = edit(c, g, b)
		}
	}
	if !g.Huge && iv.precision != 0 && c.Chance(2, 3) {
		b = perturb(c, a, iv.precision) // differences around the tolerance
		if c.Chance(1, 3) {
			a, b = straddle(c, a, a, iv.precision) // ... on either side of zero or of the value
		}
	}
	if c.Chance(1, 40) {
		a = nil // the empty document
	} else if c.Chance(1, 40) {
		b = nil
	}
	if b != nil && (b.K == 'o' || b.K == 'a') && (iv.yaml && c.Chance(1, 6) || c.Chance(1, 25)) {
		// the second document gains a value (or a key) that some carrier treats
		// specially: characters YAML reads as line breaks or rejects, numbers
		// between 2^63 and 2^64 and just beyond, a key longer than 1 KiB
		b = b.clone()
		hostile := []*Val{vs("next\u0085line"), vs("del\u007f"), vs("c1\u009f ok"), vs("\ufffe"), vs("sep\u2028"), vn(9.3e18), vn(18446744073709551615), vn(1e19), vn(-9.3e18), vs("bom\ufeff")}
		h := hostile[c.Int(len(hostile))]
		switch {
		case b.K == 'a':
			b.Elems = append(b.Elems, h)
		case c.Chance(1, 8):
			b.set(strings.Repeat("long-key-", 130), h)
		case c.Chance(1, 3):
			// or under a key that some carrier treats specially: digits with
			// leading zeros or a sign (JSON Pointer), control characters and
			// escape sequences (the native path syntax), a literal \u escape
			b.set([]string{"007", "+1", "-12", "02134", "del\u007f", "esc\u001b[0m", "k\u0001", "vt\u000b", "\\u003ckey", "a\\b", "tab\there"}[c.Int(11)], []*Val{h, vn(1), vs("x")}[c.Int(3)])
		default:
			b.set("note", h)
		}
	}
	if iv.twoKeys {
		a, b = withNS(a), withNS(b)
	}
	if !g.Huge && a != nil && b != nil && c.Chance(1, 6) {
		// the same documents several objects further down (paths of 3 to 9
		// elements), every level with neighbours before and after
		a, b = deepWrap(c, a, b)
	}
	s := Session{Sector: []int{8, 64, 512, 4096}[c.Int(4)], FileChunk: []int{0, 0, 0, 1, 7, 512}[c.Int(6)], StdoutTTY: c.Chance(1, 4)}
	an, bn := "a.json", "b.json"
	if iv.yaml {
		an, bn = "a.yaml", "b.yaml"
	}
	if c.Chance(1, 6) {
		// what a file is called says nothing about what is in it
		names := [][2]string{{"a", "b"}, {"a.yml", "b.yml"}, {"a.yaml", "b.json"}, {"a.txt", "b.txt"}, {"old file.json", "new file.json"}, {"ä.json", "ö.json"}, {"sub/a.json", "sub/b.json"}, {"a.json.bak", "b.JSON"}}
		nm := names[c.Int(len(names))]
		an, bn = nm[0], nm[1]
		if strings.HasPrefix(an, "sub/") {
			s.Dirs = append(s.Dirs, "sub")
		}
	}
	if c.Chance(1, 4) {
		// the environment is not an input
		s.Env = genEnv(c)
	}
	switch c.Int(6) {
	case 0:
		// a loaded machine: time jumps between clock readings
		s.Clock = simos.ClockPolicy{Mode: "slow", Seed: c.U64()}
	case 1:
		// every deadline is already due when it is set
		s.Clock = simos.ClockPolicy{Mode: "expired"}
	}
	s.Sched = c.U64()
	if false {
		env := [][2]string{{"GITHUB_ACTIONS", "true"}, {"GITHUB_ACTIONS", "true"}, {"USER", "root"}, {"TMPDIR", "/nonexistent"}, {"PWD", "/work"}, {"JD_DEBUG", "1"}, {"NO_COLOR", "1"}, {"TERM", "xterm-256color"}, {"TERM", "dumb"}, {"JD_COLOR", "1"}, {"JD_FORMAT", "patch"}, {"JD_OPTS", "-set"}, {"LANG", "C"}, {"LC_ALL", "tr_TR.UTF-8"}, {"HOME", "/root"}, {"DEBUG", "1"}, {"CI", "true"}, {"CLICOLOR_FORCE", "1"}, {"GITHUB_OUTPUT", "gh-out"}}
		for i := 0; i < c.Range(1, 3); i++ {
			s.Env = append(s.Env, env[c.Int(len(env))])
		}
	}
	if c.Chance(1, 5) {
		s.Arg0 = []string{"./jd", "/usr/local/bin/jd", "jd.exe", "jd-v2", "/opt/jd/bin/jd"}[c.Int(5)]
	}
	s.Files = []File{{an, Blob(docText(c, a, iv.yaml))}, {bn, Blob(docText(c, b, iv.yaml))}}
	useO := c.Chance(2, 5)
	useStdin := c.Chance(2, 5)
	mkStdin := func(name string) *StdinSpec {
		plan, ewd := genPlan(c)
		sp := &StdinSpec{From: "file:" + name, Plan: plan, EOFWithData: ewd, Redirect: c.Chance(1, 4)}
		if sp.Redirect && c.Chance(1, 4) {
			// the caller read a header from the same file first: jd inherits
			// the descriptor with its offset behind it
			sp.Consumed = Blob([]string{"# generated 2000-01-01\n", "---\n", "{\"header\":true}\n", "x"}[c.Int(4)])
		}
		return sp
	}
	diffProc := func(out string, color bool) ProcSpec {
		fl := iv.flags()
		if color {
			fl = append(fl, flagSpec{name: "color"})
		}
		if out != "" {
			fl = append(fl, flagSpec{"o", out, true, false})
		}
		p := ProcSpec{Bin: iv.bin}
		if useStdin {
			p.Argv = renderArgv(c, fl, []string{an})
			p.Stdin = mkStdin(bn)
			if len(p.Stdin.Consumed) == 0 && c.Chance(1, 6) {
				// the standard input named as a file
				p.Argv = renderArgv(c, fl, []string{an, simos.DevStdin})
			}
		} else {
			p.Argv = renderArgv(c, fl, []string{an, bn})
		}
		return p
	}
	switch c.Pick(25, 40, 15, 4, 12, 4, 6) {
	case 0: // S1 diff
		s.Kind = "diff"
		out := ""
		if useO {
			out = "out"
			if c.Chance(1, 10) {
				out = an // the output overwrites an input: everything is read before anything is written
			}
		}
		// -color only means something for the native format; with the others it must change nothing
		s.Procs = []ProcSpec{diffProc(out, iv.format == "jd" && c.Chance(1, 4) || iv.format != "jd" && c.Chance(1, 8))}
	case 1: // S4 round trip
		s.Kind = "roundtrip"
		carrier := c.Int(3) // 0 -o file, 1 captured stdout via pipe, 2 stdout to file (shell redirect)
		var p0, p1 ProcSpec
		fl := iv.flags()
		fl = append(fl, flagSpec{name: "p"})
		out2 := ""
		if c.Chance(1, 3) {
			out2 = "patched"
			if c.Chance(1, 4) {
				out2 = an // patch in place
			}
			fl = append(fl, flagSpec{"o", out2, true, false})
		}
		switch carrier {
		case 0:
			p0 = diffProc("p.diff", false)
			if c.Chance(1, 3) {
				p1 = ProcSpec{Bin: iv.bin, Argv: renderArgv(c, fl, []string{"p.diff"}), Stdin: mkStdin(an)}
			} else {
				p1 = ProcSpec{Bin: iv.bin, Argv: renderArgv(c, fl, []string{"p.diff", an})}
			}
		default:
			// `jd a b | jd -p /dev/stdin a` is not expressible (the patch is FILE1);
			// the pipe carries the document instead: `jd a b > p; cat a | jd -p p`
			p0 = diffProc("p.diff", false)
			p1 = ProcSpec{Bin: iv.bin, Argv: renderArgv(c, fl, []string{"p.diff"}), Stdin: mkStdin(an)}
		}
		s.Procs = []ProcSpec{p0, p1}
		arr := iv.arrays
		var keys []string
		switch arr {
		case "setkeys":
			arr, keys = "set", iv.keys()
			if iv.v1 {
				arr = "list" // v1: -setkeys alone leaves arrays ordered
			}
		case "set+keys":
			arr, keys = "set", iv.keys()
		case "mset+keys":
			arr, keys = "mset", iv.keys()
		case "set+mset":
			arr = "skip"
		}
		s.RT = &RoundTrip{Target: bn, Source: an, YAML: iv.yaml, Arrays: arr, Eps: iv.precision, Merge: iv.format == "merge", Keys: keys}
	case 2: // S3 translate
		s.Kind = "translate"
		out := ""
		if useO {
			out = "out"
		}
		t := []string{"jd2patch", "patch2jd", "jd2merge", "merge2jd", "json2yaml", "yaml2json"}[c.Int(6)]
		var fl []flagSpec
		if iv.v1 {
			fl = append(fl, flagSpec{"v2", "false", true, true})
		}
		fl = append(fl, flagSpec{"t", t, true, false})
		if out != "" {
			fl = append(fl, flagSpec{"o", out, true, false})
		}
		switch t {
		case "json2yaml", "yaml2json":
			isY := t == "yaml2json"
			s.Files = []File{{"doc", Blob(docText(c, a, isY))}}
			if c.Chance(1, 6) {
				for x := range fl {
					if fl[x].name == "o" {
						fl[x].value = "doc" // translate in place
					}
				}
			}
			p := ProcSpec{Bin: iv.bin}
			if useStdin {
				p.Argv = renderArgv(c, fl, nil)
				p.Stdin = mkStdin("doc")
			} else {
				p.Argv = renderArgv(c, fl, []string{"doc"})
			}
			s.Procs = []ProcSpec{p}
		default:
			iv2 := iv
			iv2.yaml = false
			iv2.precision = 0
			iv2.format = strings.SplitN(t, "2", 2)[0]
			if iv2.format != "jd" {
				iv2.arrays = "list"
			}
			s.Files = []File{{"a.json", Blob(docText(c, a, false))}, {"b.json", Blob(docText(c, b, false))}}
			p0 := ProcSpec{Bin: iv.bin, Argv: renderArgv(c, append(iv2.flags(), flagSpec{"o", "p.diff", true, false}), []string{"a.json", "b.json"})}
			p1 := ProcSpec{Bin: iv.bin}
			if useStdin {
				p1.Argv = renderArgv(c, fl, nil)
				p1.Stdin = mkStdin("p.diff")
			} else {
				p1.Argv = renderArgv(c, fl, []string{"p.diff"})
			}
			s.Procs = []ProcSpec{p0, p1}
		}
	case 3: // S5 git diff driver / version
		s.Kind = "gitdiff"
		if c.Chance(1, 3) {
			s.Kind = "version"
			s.Procs = []ProcSpec{{Bin: iv.bin, Argv: []string{"-version"}}}
			break
		}
		iv.v1 = false
		fl := append(iv.flags(), flagSpec{name: "git-diff-driver"})
		// what git passes besides the two files says nothing about their
		// contents: object ids may be equal (a mode-only change), all zero (id
		// not computed), or absent
		ids := [][2]string{{"abc123", "def456"}, {"abc123", "def456"}, {"abc123", "abc123"}, {"0000000000000000000000000000000000000000", "0000000000000000000000000000000000000000"}, {"abc123", "."}, {"e69de29bb2d1d6434b8b29ae775ad8c2e48c5391", "0000000000000000000000000000000000000000"}}[c.Int(6)]
		modes := [][2]string{{"100644", "100644"}, {"100644", "100755"}, {"100644", "."}}[c.Pick(4, 1, 1)]
		s.Procs = []ProcSpec{{Bin: iv.bin, Argv: renderArgv(c, fl, []string{"path", an, ids[0], modes[0], bn, ids[1], modes[1]})}}
	case 4: // S6 misuse
		s.Kind = "misuse"
		s.Procs = []ProcSpec{genMisuse(c, iv, &s, an, bn)}
	default: // S2 patch with a stale or foreign document
		s.Kind = "patch-other"
		other := docs[2]
		s.Files = append(s.Files, File{"c.json", Blob(docText(c, other, iv.yaml))})
		fl := append(iv.flags(), flagSpec{name: "p"})
		p0 := diffProc("p.diff", false)
		s.Procs = []ProcSpec{p0, {Bin: iv.bin, Argv: renderArgv(c, fl, []string{"p.diff", "c.json"})}}
	case 6: // S7 pipe: the stdout of one process is the stdin of the next
		s.Kind = "pipe"
		if c.Chance(1, 2) && !iv.yaml {
			iv2 := iv
			iv2.precision = 0
			if iv2.format == "merge" || c.Chance(1, 2) {
				iv2.format = "jd"
			}
			if iv2.format == "patch" {
				iv2.arrays = "list"
			}
			t := map[string][]string{"jd": {"jd2patch", "jd2merge"}, "patch": {"patch2jd"}}[iv2.format]
			fl := []flagSpec{{"t", t[c.Int(len(t))], true, false}}
			if iv.v1 {
				fl = append(fl, flagSpec{"v2", "false", true, true})
			}
			plan, ewd := genPlan(c)
			s.Procs = []ProcSpec{
				{Bin: iv.bin, Argv: renderArgv(c, iv2.flags(), []string{an, bn})},
				{Bin: iv.bin, Argv: renderArgv(c, fl, nil), Stdin: &StdinSpec{From: "prev", Plan: plan, EOFWithData: ewd}},
			}
		} else {
			// jd -t yaml2json doc | jd other.json
			y := docText(c, b, true)
			s.Files = []File{{"a.json", Blob(docText(c, a, false))}, {"doc.yaml", Blob(y)}}
			plan, ewd := genPlan(c)
			var fl []flagSpec
			switch iv.arrays {
			case "set":
				fl = append(fl, flagSpec{name: "set"})
			case "mset":
				fl = append(fl, flagSpec{name: "mset"})
			}
			s.Procs = []ProcSpec{
				{Bin: iv.bin, Argv: []string{"-t", "yaml2json", "doc.yaml"}},
				{Bin: iv.bin, Argv: renderArgv(c, fl, []string{"a.json"}), Stdin: &StdinSpec{From: "prev", Plan: plan, EOFWithData: ewd}},
			}
		}
	}
	// the name given to -o may be a symbolic link: the bytes belong in the file
	// it points to, and the link stays a link
	if c.Chance(1, 10) {
		n := []string{"out", "patched"}[c.Int(2)]
		s.Links = append(s.Links, [2]string{n, n + ".real"})
	} else if c.Chance(1, 12) {
		// or a named pipe somebody reads (`-o >(cmd)`): the bytes arrive, the
		// status is the usual one, and the pipe stays a pipe
		n := []string{"out", "patched"}[c.Int(2)]
		s.Links = append(s.Links, [2]string{n, fifoMark})
	}
	// the name given to -o may lead through a symbolic link to a directory
	// and back up again: "ws/outlink/../out" with outlink -> ../store/deep is
	// store/out for the kernel (which follows the link before it looks at
	// ".."), and ws/out only for who cleans the path as text
	if len(s.Links) == 0 && c.Chance(1, 12) {
		long, replaced := "ws/outlink/../out", false
		for i := range s.Procs {
			for j, a := range s.Procs[i].Argv {
				switch {
				case a == "out":
					s.Procs[i].Argv[j], replaced = long, true
				case strings.HasSuffix(a, "=out"):
					s.Procs[i].Argv[j], replaced = strings.TrimSuffix(a, "out")+long, true
				}
			}
		}
		if replaced {
			s.Dirs = append(s.Dirs, "ws", "store", "store/deep")
			s.Links = append(s.Links, [2]string{"ws/outlink", "../store/deep"})
		}
	}
	// an input may be something whose size stat cannot tell (`jd <(cmd) b`)
	if c.Chance(1, 12) {
		n := []string{an, bn}[c.Int(2)]
		written := false
		for _, p := range s.Procs {
			if parseArgv(p.Argv).output == n {
				written = true // a session that patches or diffs in place: the name is a file
			}
		}
		if !written {
			s.Links = append(s.Links, [2]string{n, sizeUnknownMark})
		}
	}
	// a stale earlier result may already sit where -o is going to write
	if c.Chance(1, 3) {
		stale := "@ [\"old\"]\n- \"stale output from an earlier run\"\n+ \"" + strings.Repeat("x", c.Range(0, 600)) + "\"\n"
		for _, n := range []string{"out", "p.diff", "patched"} {
			if c.Chance(2, 3) {
				for _, l := range s.Links {
					if l[0] == n {
						n = l[1] // the stale result sits where the link points to
					}
				}
				if n == fifoMark {
					continue // a pipe holds nothing from earlier
				}
				s.Files = append(s.Files, File{n, Blob(stale)})
			}
		}
	}
	return s
}

func genMisuse(c *Chooser, iv invocation, s *Session, an, bn string) ProcSpec {
	fl := iv.flags()
	pos := []string{an, bn}
	p := ProcSpec{Bin: iv.bin}
	switch c.Int(17) {
	case 16: // a complete document followed by more data is not a document
		tails := []string{" }", "\n" + string(s.Files[1].Data), " 1", ",", "x"}
		s.Files[0].Data = append(append(Blob(nil), s.Files[0].Data...), []byte(tails[c.Int(len(tails))])...)
	case 15: // both inputs are the same unparsable bytes
		d := s.Files[0].Data
		if len(d) > 1 {
			d = d[:c.Range(1, len(d)-1)]
		}
		bad := append(append(Blob(nil), d...), []byte("}{")...)
		s.Files[0].Data, s.Files[1].Data = bad, append(Blob(nil), bad...)
	case 0:
		pos = []string{"missing.json", bn}
	case 1:
		pos = []string{an, "missing.json"}
	case 2: // unparsable input
		d := s.Files[c.Int(2)].Data
		if len(d) > 1 {
			d = d[:c.Range(1, len(d)-1)]
		}
		s.Files[0].Data = append(Blob(nil), d...)
		s.Files[0].Data = append(s.Files[0].Data, []byte("}{")...)
	case 3:
		fl = append(fl, flagSpec{"f", "bogus", true, false})
	case 4:
		// a translation that does not exist: an unknown format name, or two
		// known formats that cannot be translated into one another
		fm := []string{"jd", "patch", "merge", "json", "yaml", "xml", ""}
		t := fm[c.Int(len(fm))] + "2" + fm[c.Int(len(fm))]
		switch t {
		case "jd2patch", "patch2jd", "jd2merge", "merge2jd", "json2yaml", "yaml2json":
			t = "json2xml"
		}
		fl = []flagSpec{{"t", t, true, false}}
		pos = []string{an}
	case 5:
		fl = append(fl, flagSpec{name: "p"}, flagSpec{"t", "jd2patch", true, false})
	case 6:
		fl = []flagSpec{{"precision", "0.1", true, false}, {name: []string{"set", "mset"}[c.Int(2)]}}
	case 7:
		pos = nil
	case 8:
		pos = []string{an, bn, an}
	case 9:
		fl = append(fl, flagSpec{name: "zz"})
	case 10:
		fl = append(fl, flagSpec{"precision", "abc", true, false})
	case 11:
		fl = append(fl, flagSpec{"o", "nodir/out", true, false})
	case 12:
		s.Dirs = append(s.Dirs, "d")
		if c.Chance(1, 2) {
			s.Files = append(s.Files, File{"d/keep", Blob("x")}) // a directory that is not empty
		}
		if c.Chance(1, 2) {
			fl = append(fl, flagSpec{"o", "d", true, false})
		} else {
			pos = []string{"d", bn}
		}
	case 13:
		fl = []flagSpec{{"setkeys", "id,,x", true, false}}
	default:
		fl = append(fl, flagSpec{name: []string{"h", "help"}[c.Int(2)]})
	}
	p.Argv = renderArgv(c, fl, pos)
	return p
}

// variants14 lists the clause evaluations for a session, given its fault-free
// run (used to know which steps exist).
func variants14(c *Chooser, s Session, base *sessRun) []Variant {
	vs := []Variant{{Clause: "base"}}
	// stdin equivalence on one process
	if len(s.Procs) > 0 {
		plan, ewd := genPlan(c)
		vs = append(vs, Variant{Clause: "stdin-equiv", Proc: c.Int(len(s.Procs)), Plan: plan, EOFWithData: ewd})
	}
	vs = append(vs, Variant{Clause: "xbin"}, Variant{Clause: "map-order"})
	// fault sweep: every step of every process with each applicable failure,
	// long runs of sector writes / stdin reads thinned to first, last, one middle
	for i, res := range base.Res {
		runStart := -1
		flush := func(end int) {
			if runStart < 0 {
				return
			}
			idx := []int{runStart}
			if end-1 > runStart {
				idx = append(idx, end-1)
			}
			if end-runStart > 2 {
				idx = append(idx, runStart+1+c.Int(end-runStart-2))
			}
			for _, j := range idx {
				for _, k := range simos.Applicable(res.Steps[j].Kind) {
					if k == simos.FKill {
						continue
					}
					f := simos.Fault{Step: j, Kind: k}
					if k == simos.FStdoutENOSPC || k == simos.FStdoutEIO {
						f.Param = c.Pick(2, 1, 1) * c.Int(600) // nothing, or a prefix, reached the medium
					}
					vs = append(vs, Variant{Clause: "fault", Proc: i, Fault: &f})
				}
			}
			runStart = -1
		}
		for j, st := range res.Steps {
			thin := st.Kind == simos.SWrite || st.Kind == simos.SStdinRead || st.Kind == simos.SFileRead || st.Kind == simos.SStdout || st.Kind == simos.SStderr
			if thin {
				if runStart >= 0 && res.Steps[runStart].Kind == st.Kind {
					continue
				}
				flush(j)
				runStart = j
				continue
			}
			flush(j)
			for _, k := range simos.Applicable(st.Kind) {
				if k == simos.FKill {
					continue
				}
				f := simos.Fault{Step: j, Kind: k}
				if k == simos.FReadEIO {
					f.Param = c.Int(64)
				}
				vs = append(vs, Variant{Clause: "fault", Proc: i, Fault: &f})
			}
		}
		flush(len(res.Steps))
	}
	if len(vs) > 300 {
		// a session with very many distinct steps: keep the clause variants and
		// a seeded sample of the fault variants (the cap is part of the run,
		// so a seed explores the same cases on any machine)
		keep := vs[:4]
		rest := vs[4:]
		for len(keep) < 300 && len(rest) > 0 {
			i := c.Int(len(rest))
			keep = append(keep, rest[i])
			rest = append(rest[:i:i], rest[i+1:]...)
		}
		vs = keep
	}
	return vs
}

// genEnv draws a few environment variables a jd process might find.
func genEnv(c *Chooser) [][2]string {
	env := [][2]string{{"GITHUB_ACTIONS", "true"}, {"GITHUB_ACTIONS", "true"}, {"CI", "true"}, {"USER", "root"}, {"TMPDIR", "/nonexistent"}, {"PWD", "/work"}, {"JD_DEBUG", "1"}, {"NO_COLOR", "1"}, {"TERM", "xterm-256color"}, {"TERM", "dumb"}, {"JD_COLOR", "1"}, {"JD_FORMAT", "patch"}, {"JD_OPTS", "-set"}, {"LANG", "C"}, {"LC_ALL", "tr_TR.UTF-8"}, {"HOME", "/root"}, {"DEBUG", "1"}, {"CLICOLOR_FORCE", "1"}, {"GITHUB_OUTPUT", "gh-out"}}
	var out [][2]string
	for i := 0; i < c.Range(1, 3); i++ {
		out = append(out, env[c.Int(len(env))])
	}
	return out
}
