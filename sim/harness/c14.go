package main

import (
	"fmt"
	"sort"
	"strings"

	verifseam "github.com/josephburnett/jd/v2/verif/seam"
	"github.com/josephburnett/jd/v2/verif/simos"
)

// ---------------------------------------------------------------- case

// RoundTrip describes the equality judgement at the end of an S4 session.
type RoundTrip struct {
	Target string   `json:"target"` // file holding the second input
	YAML   bool     `json:"yaml,omitempty"`
	Arrays string   `json:"arrays"` // list | set | mset
	Eps    float64  `json:"eps,omitempty"`
	Merge  bool     `json:"merge,omitempty"`
	Keys   []string `json:"keys,omitempty"`
	Source string   `json:"source"` // file holding the first input
}

// Session is a sequence of jd processes on one simulated disk.
type Session struct {
	Kind      string            `json:"kind"`
	Sector    int               `json:"sector"`
	FileChunk int               `json:"file_chunk,omitempty"`
	StdoutTTY bool              `json:"stdout_tty,omitempty"`    // stdout is a terminal (or /dev/null): a character device
	Env       [][2]string       `json:"env,omitempty"`           // environment variables of every process
	Clock     simos.ClockPolicy `json:"clock,omitempty"`         // how simulated time passes for every process
	Sched     uint64            `json:"schedule_seed,omitempty"` // which goroutine runs when, if the tree has any
	Links     [][2]string       `json:"links,omitempty"`         // symbolic links: name, target
	Arg0      string            `json:"arg0,omitempty"`          // how the binary is called
	Files     []File            `json:"files"`
	Dirs      []string          `json:"dirs,omitempty"`
	Procs     []ProcSpec        `json:"procs"`
	RT        *RoundTrip        `json:"round_trip,omitempty"`
}

// Variant selects which clause of C14 a case evaluates.
type Variant struct {
	Clause      string       `json:"clause"` // base | stdin-equiv | xbin | fault
	Proc        int          `json:"proc,omitempty"`
	Plan        []int        `json:"plan,omitempty"`
	EOFWithData bool         `json:"eof_with_data,omitempty"`
	Fault       *simos.Fault `json:"fault,omitempty"`
}

type C14Case struct {
	S Session `json:"session"`
	V Variant `json:"variant"`
}

// Violation is an oracle disagreement.
type Violation struct {
	Prop   string `json:"property"`
	Clause string `json:"clause"`
	Where  string `json:"where"`
	// Tag narrows the class to a specific recognisable situation (the failing
	// input shape or call site); known findings are matched on it too.
	Tag    string `json:"tag,omitempty"`
	Detail string `json:"detail"`
}

func (v *Violation) Class() string {
	c := v.Prop + "|" + v.Clause + "|" + v.Where
	if v.Tag != "" {
		c += "|" + v.Tag
	}
	return c
}

// ---------------------------------------------------------------- execution

type sessRun struct {
	Res    []ProcResult
	Exp    []Expect
	Stdin  [][]byte // what each process had on stdin
	FSPost []*simos.FS
	Final  *simos.FS
	Log    []string
}

func stdinBytes(fs *simos.FS, p ProcSpec, prev []byte) []byte {
	s := p.Stdin
	if s == nil {
		return nil
	}
	switch {
	case s.From == "data":
		return s.Data
	case s.From == "prev":
		return prev
	case strings.HasPrefix(s.From, "file:"):
		return append([]byte(nil), fs.Files[strings.TrimPrefix(s.From, "file:")]...)
	}
	return nil
}

// runSession runs all processes of s on fs. If stopAfterFault is set the
// session stops after the first process in which an injected fault fired.
func runSession(s Session, fs *simos.FS, withModel bool, stopAfterFault bool) *sessRun {
	r := &sessRun{}
	var prev []byte
	for i, p := range s.Procs {
		in := stdinBytes(fs, p, prev)
		r.Stdin = append(r.Stdin, in)
		if withModel {
			r.Exp = append(r.Exp, cliModel(p.Bin, p.Arg0, p.Argv, fs, in))
		}
		if p.Arg0 == "" {
			p.Arg0 = s.Arg0
		}
		res := runProc(fs, p, IOCfg{s.Sector, s.FileChunk, s.StdoutTTY, s.Env, s.Clock, s.Sched}, prev)
		r.Res = append(r.Res, res)
		r.FSPost = append(r.FSPost, fs.Clone())
		r.Log = append(r.Log, eventLog(i, res)...)
		prev = res.Stdout
		if stopAfterFault && len(res.Fired) > 0 {
			break
		}
	}
	r.Final = fs
	return r
}

func where14(p ProcSpec, e Expect) string {
	f := parseArgv(p.Argv)
	mode := "diff"
	if f.patch {
		mode = "patch"
	}
	if f.translate != "" {
		mode = "translate:" + f.translate
	}
	if f.gitDiffDriver {
		mode = "gitdiff"
	}
	format := f.format
	if format == "" {
		format = "jd"
	}
	bin := p.Bin
	if p.Bin == "top" && !f.v2 {
		bin = "top-v1"
	}
	return bin + "/" + mode + "/" + format
}

func viol14(clause string, p ProcSpec, e Expect, format string, a ...any) *Violation {
	return &Violation{Prop: "C14", Clause: clause, Where: where14(p, e), Detail: fmt.Sprintf(format, a...)}
}

// compareToModel checks invariants 1 and 2 for process i of a run.
func compareToModel(s Session, r *sessRun, i int, pre *simos.FS) *Violation {
	p, res, e := s.Procs[i], r.Res[i], r.Exp[i]
	if !e.Defined {
		stats.probe("model-undefined")
		return nil
	}
	if e.Status == 2 && e.Why == "-o target cannot be written" && (res.Code == 0 || res.Code == 1) && res.Crash == "" {
		// The model expects a failure because the directory -o points into
		// does not exist. A program may also go to the trouble of creating it;
		// then everything must be as if it had been there.
		if fo := parseArgv(p.Argv); fo.output != "" {
			pre2 := pre.Clone()
			for d := dirOfName(pre2.Resolve(fo.output)); d != "." && d != "/" && d != ""; d = dirOfName(d) {
				if _, isFile := pre2.Files[d]; isFile {
					pre2 = nil
					break
				}
				pre2.Dirs[d] = true
			}
			if pre2 != nil {
				if e2 := cliModel(p.Bin, p.Arg0, p.Argv, pre2, r.Stdin[i]); e2.Defined && e2.Status != 2 {
					stats.probe("missing-output-directory-created-by-the-program")
					e, pre = e2, pre2
				}
			}
		}
	}
	if res.Runaway {
		return viol14("no-termination", p, e, "process was still making I/O calls after %d of them: it does not terminate; argv=%q", len(res.Steps), p.Argv)
	}
	if res.Crash != "" {
		return viol14("crash", p, e, "process panicked (%s at %s) where the library, called directly with the same inputs, did not", res.Crash, res.CrashAt)
	}
	if res.Code != e.Status {
		return viol14("status", p, e, "exit status %d, contract says %d (%s); argv=%q stderr=%s", res.Code, e.Status, e.Why, p.Argv, show(res.Stderr))
	}
	// what a failing process puts on stdout (nothing, a usage text) is not
	// part of the contract; its status and message are
	if !e.StdoutAny && e.Status != 2 && string(res.Stdout) != string(e.Stdout) {
		return viol14("stdout", p, e, "stdout %s, the library renders %s; argv=%q", show(res.Stdout), show(e.Stdout), p.Argv)
	}
	want := pre.Clone()
	if e.OutFile != "" {
		want.Files[e.OutFile] = e.OutData
	}
	if ok, why := fsEqual(r.FSPost[i], want); !ok {
		return viol14("files", p, e, "%s; argv=%q", why, p.Argv)
	}
	if res.Code == 2 && len(res.Stderr) == 0 && !e.StdoutAny {
		return viol14("silent-error", p, e, "exit status 2 with nothing on stderr; argv=%q", p.Argv)
	}
	return nil
}

// roundTripPromised says whether the statement of C14 promises the round trip
// for this session, given what the first process did.
func roundTripPromised(s Session, r *sessRun) (bool, *Val, string) {
	rt := s.RT
	if rt == nil || len(r.Res) < 2 || rt.Arrays == "skip" {
		return false, nil, ""
	}
	if r.Res[0].Code != 0 && r.Res[0].Code != 1 {
		return false, nil, ""
	}
	// the carrier must be what the first process wrote and the last one reads
	f0, fl := parseArgv(s.Procs[0].Argv), parseArgv(s.Procs[len(s.Procs)-1].Argv)
	if f0.output == "" || len(fl.args) == 0 || fl.args[0] != f0.output || !fl.patch {
		return false, nil, ""
	}
	if _, ok := r.FSPost[0].Files[r.FSPost[0].Resolve(f0.output)]; !ok {
		return false, nil, ""
	}
	// "jd [flags] a b" then "jd -p [flags]": the same flags on both sides
	if f0.format != fl.format && !(isJd(f0.format) && isJd(fl.format)) || f0.yaml != fl.yaml || f0.set != fl.set || f0.mset != fl.mset || f0.setkeys != fl.setkeys || f0.v2 != fl.v2 || s.Procs[0].Bin != s.Procs[len(s.Procs)-1].Bin {
		return false, nil, ""
	}
	srcText, tgtText := "", ""
	for _, f := range s.Files {
		if f.Name == rt.Target {
			tgtText = string(f.Data)
		}
		if f.Name == rt.Source {
			srcText = string(f.Data)
		}
	}
	tgt, err := parseDoc(tgtText, rt.YAML)
	if err != nil {
		return false, nil, ""
	}
	src, err := parseDoc(srcText, rt.YAML)
	if err != nil {
		return false, nil, ""
	}
	if rt.Merge {
		// merge patches cannot express null values or the empty document
		if tgt == nil || src == nil || tgt.hasNull() || src.hasNull() {
			return false, nil, ""
		}
	}
	if len(rt.Keys) > 0 {
		if src != nil && !everyArrayObjectHas(src, rt.Keys) || tgt != nil && !everyArrayObjectHas(tgt, rt.Keys) {
			return false, nil, ""
		}
		if !uniqueKeyed(src, rt.Keys) || !uniqueKeyed(tgt, rt.Keys) {
			return false, nil, "" // two members with one identity: not the documented use of -setkeys
		}
	}
	return true, tgt, tgtText
}

func isJd(f string) bool { return f == "" || f == "jd" }

func checkRoundTrip(s Session, r *sessRun) *Violation {
	ok, tgt, tgtText := roundTripPromised(s, r)
	if !ok {
		return nil
	}
	stats.probe("round-trip-judged")
	last := len(s.Procs) - 1
	p, res := s.Procs[last], r.Res[last]
	e := Expect{}
	if res.Crash != "" {
		return nil // reported by compareToModel / C13
	}
	if res.Code != 0 {
		if s.RT.Eps > 0 && roundTripWorksWithoutPrecision(s) {
			v := viol14("round-trip-status", p, e, "with -precision %g the diff omits differences within the tolerance but keeps the second input's elements as list context, which the first input does not match exactly: `jd %s` then `jd %s` failed with status %d: %s (the same session without -precision round-trips)", s.RT.Eps, strings.Join(s.Procs[0].Argv, " "), strings.Join(p.Argv, " "), res.Code, show(maskStamp(res.Stderr)))
			v.Tag = "precision-shifts-list-context"
			return v
		}
		if f0 := parseArgv(s.Procs[0].Argv); where14(p, e)[:6] == "top-v1" && f0.setkeys != "" && (f0.set || f0.mset) && strings.Contains(string(res.Stderr), "expected object with id") {
			v := viol14("round-trip-status", p, e, "v1 library with -set/-mset and -setkeys: the diff addresses a keyed member by its whole content instead of its keys, so after the first hunk changed the member the next hunk cannot find it: `jd %s` then `jd %s` failed with status %d: %s", strings.Join(s.Procs[0].Argv, " "), strings.Join(p.Argv, " "), res.Code, show(maskStamp(res.Stderr)))
			v.Tag = "v1-setkeys-path-holds-whole-member"
			return v
		}
		if len(s.RT.Keys) > 1 && setkeysPermutedIdentity(s, s.RT.Keys, s.RT.YAML) {
			v := viol14("round-trip-status", p, e, "-setkeys %s: two members of one array hold the same key values under exchanged keys; the differ takes them for one member: `jd %s` then `jd %s` failed with status %d: %s (the same session passes when no key value can be mistaken for another key's)", strings.Join(s.RT.Keys, ","), strings.Join(s.Procs[0].Argv, " "), strings.Join(p.Argv, " "), res.Code, show(maskStamp(res.Stderr)))
			v.Tag = "setkeys-permuted-identity"
			return v
		}
		if where14(p, e)[:6] == "top-v1" && s.RT.Arrays != "list" && v1HashAliasing(s, cmpMode{Arrays: s.RT.Arrays, Eps: s.RT.Eps}) {
			v := viol14("round-trip-status", p, e, "v1 library, arrays as %s: two different array members have the same v1 hash code, the diff addresses one through the other's identity: `jd %s` then `jd %s` failed with status %d: %s", s.RT.Arrays, strings.Join(s.Procs[0].Argv, " "), strings.Join(p.Argv, " "), res.Code, show(maskStamp(res.Stderr)))
			v.Tag = "v1-set-hash-aliasing"
			return v
		}
		return viol14("round-trip-status", p, e, "applying the output of `jd %s` with `jd %s` failed with status %d: %s", strings.Join(s.Procs[0].Argv, " "), strings.Join(p.Argv, " "), res.Code, show(maskStamp(res.Stderr)))
	}
	f := parseArgv(p.Argv)
	out := res.Stdout
	if f.output != "" {
		out = r.Final.Files[r.Final.Resolve(f.output)]
	}
	got, err := parseDoc(string(out), s.RT.YAML)
	if err != nil {
		v := viol14("round-trip-unparsable", p, e, "patched output does not parse: %v: %s", err, show(out))
		if s.RT.YAML && yamlMergeKey(s) {
			v.Tag = "yaml-merge-key"
		}
		return v
	}
	m := cmpMode{Arrays: s.RT.Arrays, Eps: s.RT.Eps}
	if !equalVals(got, tgt, m) {
		if f0 := parseArgv(s.Procs[0].Argv); s.RT.Merge && f0.output != "" && strings.TrimSpace(string(r.FSPost[0].Files[r.FSPost[0].Resolve(f0.output)])) == "{}" {
			v := viol14("round-trip-differs", p, e, "the merge patch `jd %s` wrote is {} (a non-object document becoming the empty object); `jd %s` then leaves the document unchanged: got %s, second input was %s", strings.Join(s.Procs[0].Argv, " "), strings.Join(p.Argv, " "), show(out), show([]byte(tgtText)))
			v.Tag = "empty-object-merge-patch"
			return v
		}
		if s.RT.YAML && yamlMergeKey(s) {
			v := viol14("round-trip-differs", p, e, "YAML output writes the object key \"<<\" unquoted, which reads back as a YAML merge key: `jd %s` then `jd %s` produced %s, second input was %s (the same session passes when the key has another name)", strings.Join(s.Procs[0].Argv, " "), strings.Join(p.Argv, " "), show(out), show([]byte(tgtText)))
			v.Tag = "yaml-merge-key"
			return v
		}
		if len(s.RT.Keys) > 1 && setkeysPermutedIdentity(s, s.RT.Keys, s.RT.YAML) {
			v := viol14("round-trip-differs", p, e, "-setkeys %s: two members of one array hold the same key values under exchanged keys; the differ takes them for one member and one of them is lost: `jd %s` then `jd %s` produced %s, second input was %s (the same session passes when no key value can be mistaken for another key's)", strings.Join(s.RT.Keys, ","), strings.Join(s.Procs[0].Argv, " "), strings.Join(p.Argv, " "), show(out), show([]byte(tgtText)))
			v.Tag = "setkeys-permuted-identity"
			return v
		}
		if where14(p, e)[:6] == "top-v1" && s.RT.Arrays != "list" && v1HashAliasing(s, m) {
			v := viol14("round-trip-differs", p, e, "v1 library, arrays as %s: two different array members have the same v1 hash code (for example {} and [] and \"\"), so one of them is lost: `jd %s` then `jd %s` produced %s, second input was %s", m.Arrays, strings.Join(s.Procs[0].Argv, " "), strings.Join(p.Argv, " "), show(out), show([]byte(tgtText)))
			v.Tag = "v1-set-hash-aliasing"
			return v
		}
		return viol14("round-trip-differs", p, e, "`jd %s` then `jd %s` produced %s, second input was %s (arrays as %s)", strings.Join(s.Procs[0].Argv, " "), strings.Join(p.Argv, " "), show(out), show([]byte(tgtText)), m.Arrays)
	}
	return nil
}

func sameOutcome(a, b ProcResult) (bool, string) {
	if a.Code != b.Code {
		return false, fmt.Sprintf("exit status %d vs %d", a.Code, b.Code)
	}
	if (a.Crash != "") != (b.Crash != "") {
		return false, fmt.Sprintf("crash %q vs %q", a.Crash, b.Crash)
	}
	if !(a.Code == 2 && b.Code == 2) && string(a.Stdout) != string(b.Stdout) {
		return false, fmt.Sprintf("stdout %s vs %s", show(a.Stdout), show(b.Stdout))
	}
	// stderr wording is not part of the contract (a message may name the file,
	// the binary, or stdin); only its presence with status 2 is
	if (a.Code == 2) && (len(a.Stderr) == 0) != (len(b.Stderr) == 0) && len(a.Stdout) == 0 {
		return false, fmt.Sprintf("one run explains its status 2 on stderr, the other is silent: %s vs %s", show(maskStamp(a.Stderr)), show(maskStamp(b.Stderr)))
	}
	return true, ""
}

// stdinVariant rewrites process i so that its last input arrives on stdin.
func stdinVariant(p ProcSpec, plan []int, eofWithData bool) (ProcSpec, bool) {
	f := parseArgv(p.Argv)
	if f.err != "" || f.help || f.version || f.gitDiffDriver || f.port != 0 {
		return p, false
	}
	q := p
	if p.Stdin != nil && p.Stdin.From != "" {
		// already on stdin: only the chunking changes
		s := *p.Stdin
		s.Plan, s.EOFWithData = plan, eofWithData
		q.Stdin = &s
		return q, true
	}
	n := len(f.args)
	translate := f.translate != ""
	if translate && n != 1 || !translate && n != 2 {
		return p, false
	}
	last := f.args[n-1]
	if last == simos.DevStdin {
		return p, false
	}
	q.Argv = append([]string(nil), p.Argv[:len(p.Argv)-1]...)
	q.Stdin = &StdinSpec{From: "file:" + last, Plan: plan, EOFWithData: eofWithData}
	return q, true
}

// checkC14 evaluates one clause on one concrete case. It is a deterministic
// function of the case and of the tree under test.
func checkC14(c C14Case) (*Violation, []string, *caseInfo) {
	s := c.S
	info := &caseInfo{}
	base := runSession(s, fsFromSession(s.Files, s.Dirs, s.Links), true, false)
	info.fill(s, base, c.V, nil)
	switch c.V.Clause {
	case "base":
		pre := fsFromSession(s.Files, s.Dirs, s.Links)
		for i := range base.Res {
			if v := compareToModel(s, base, i, pre); v != nil {
				return v, base.Log, info
			}
			if v := statusVsDocuments(s, base, i, pre); v != nil {
				return v, base.Log, info
			}
			pre = base.FSPost[i]
		}
		return checkRoundTrip(s, base), base.Log, info

	case "stdin-equiv":
		i := c.V.Proc
		if i >= len(s.Procs) {
			return nil, nil, info
		}
		q, ok := stdinVariant(s.Procs[i], c.V.Plan, c.V.EOFWithData)
		if !ok {
			return nil, nil, info
		}
		if q.Stdin != nil && strings.HasPrefix(q.Stdin.From, "file:") {
			// the equivalence is about an input that exists: a missing file has
			// no stdin counterpart
			pre := fsFromSession(s.Files, s.Dirs, s.Links)
			if i > 0 {
				pre = base.FSPost[i-1]
			}
			name := strings.TrimPrefix(q.Stdin.From, "file:")
			if _, exists := pre.Files[name]; !exists || pre.Dirs[name] {
				return nil, nil, info
			}
		}
		s2 := s
		s2.Procs = append([]ProcSpec(nil), s.Procs...)
		s2.Procs[i] = q
		alt := runSession(s2, fsFromSession(s.Files, s.Dirs, s.Links), false, false)
		info.fill(s2, alt, c.V, nil)
		if len(alt.Res[i].Stdout) > 0 || len(base.Stdin[i]) > 4096 || len(alt.Stdin[i]) > 4096 {
			if len(alt.Stdin[i]) > 4096 {
				stats.probe("stdin-crossed-4096")
			}
		}
		for j := range base.Res {
			if ok, why := sameOutcome(base.Res[j], alt.Res[j]); !ok {
				return viol14("stdin-equiv", s.Procs[i], Expect{}, "process %d differs when the last input arrives on stdin (plan %v, eof-with-data %v): %s", j, c.V.Plan, c.V.EOFWithData, why), alt.Log, info
			}
			if ok, why := fsEqual(alt.FSPost[j], base.FSPost[j]); !ok {
				return viol14("stdin-equiv", s.Procs[i], Expect{}, "files differ after process %d when the last input arrives on stdin: %s", j, why), alt.Log, info
			}
		}
		return nil, alt.Log, info

	case "xbin":
		s2 := s
		s2.Procs = append([]ProcSpec(nil), s.Procs...)
		for i, p := range s2.Procs {
			f := parseArgv(p.Argv)
			if !f.v2 || f.version || f.help || f.err != "" {
				return nil, nil, info
			}
			if len(f.args) != 1 && len(f.args) != 2 && f.translate == "" && !f.gitDiffDriver {
				return nil, nil, info // usage text differs between the binaries
			}
			if f.translate != "" && len(f.args) > 1 {
				return nil, nil, info
			}
			if p.Bin == "v2" {
				s2.Procs[i].Bin = "top"
			} else {
				s2.Procs[i].Bin = "v2"
			}
		}
		alt := runSession(s2, fsFromSession(s.Files, s.Dirs, s.Links), false, false)
		info.fill(s2, alt, c.V, nil)
		for j := range base.Res {
			if ok, why := sameOutcome(base.Res[j], alt.Res[j]); !ok {
				return viol14("xbin", s.Procs[j], Expect{}, "the two binaries disagree on %q: %s", s.Procs[j].Argv, why), alt.Log, info
			}
			if ok, why := fsEqual(alt.FSPost[j], base.FSPost[j]); !ok {
				return viol14("xbin", s.Procs[j], Expect{}, "the two binaries leave different files on %q: %s", s.Procs[j].Argv, why), alt.Log, info
			}
		}
		return nil, alt.Log, info

	case "map-order":
		// the same session with every map range inside jd reversed: nothing
		// observable may depend on Go's map iteration order
		verifseam.Hook = func(site string, n int) (int, uint64) { return verifseam.Reverse, 0 }
		alt := runSession(s, fsFromSession(s.Files, s.Dirs, s.Links), false, false)
		verifseam.Hook = nil
		info.fill(s, alt, c.V, nil)
		for j := range base.Res {
			if ok, why := sameOutcome(base.Res[j], alt.Res[j]); !ok {
				return viol14("map-order", s.Procs[j], Expect{}, "process %d behaves differently when Go's map iteration order is reversed: %s; argv=%q", j, why, s.Procs[j].Argv), alt.Log, info
			}
			if ok, why := fsEqual(alt.FSPost[j], base.FSPost[j]); !ok {
				return viol14("map-order", s.Procs[j], Expect{}, "process %d leaves different files when Go's map iteration order is reversed: %s; argv=%q", j, why, s.Procs[j].Argv), alt.Log, info
			}
		}
		return nil, alt.Log, info

	case "fault":
		return checkC14Fault(c, base, info)
	}
	return nil, nil, info
}

func checkC14Fault(c C14Case, base *sessRun, info *caseInfo) (*Violation, []string, *caseInfo) {
	s := c.S
	i := c.V.Proc
	if i >= len(s.Procs) || c.V.Fault == nil {
		return nil, nil, info
	}
	s2 := s
	s2.Procs = append([]ProcSpec(nil), s.Procs...)
	s2.Procs[i].Faults = []simos.Fault{*c.V.Fault}
	fs := fsFromSession(s.Files, s.Dirs, s.Links)
	flt := runSession(s2, fs, false, true)
	if len(flt.Res) <= i || len(flt.Res[i].Fired) == 0 {
		stats.probe("fault-not-fired")
		return nil, flt.Log, info
	}
	info.fill(s2, flt, c.V, flt.Res[i].Fired)
	res := flt.Res[i]
	p := s.Procs[i]
	kind := res.Fired[0].Kind
	e := base.Exp[i]
	log := flt.Log
	if res.Runaway {
		return viol14("no-termination", p, e, "under %s the process was still making I/O calls after %d of them: it does not terminate; argv=%q", kind, len(res.Steps), p.Argv), log, info
	}
	if res.Crash != "" {
		return viol14("fault-crash", p, e, "process panicked under %s: %s at %s", kind, res.Crash, res.CrashAt), log, info
	}
	// a program may legitimately mask a failed call (retry it, fall back to
	// another way of doing the same thing): then everything observable must be
	// exactly what the fault-free run produced
	masked := false
	if kind != simos.FStdinEOF && res.Code == base.Res[i].Code && res.Code != 2 && string(res.Stdout) == string(base.Res[i].Stdout) {
		if same, _ := fsEqual(flt.FSPost[i], base.FSPost[i]); same {
			masked = true
			stats.probe("fault-masked-by-retry-or-fallback")
		}
	}
	switch {
	case masked:
	default:
		return checkC14FaultOutcome(c, base, flt, fs, info, kind)
	}
	return nil, log, info
}

// checkC14FaultOutcome judges a process in which an injected failure fired and
// was not masked.
func checkC14FaultOutcome(c C14Case, base, flt *sessRun, fs *simos.FS, info *caseInfo, kind string) (*Violation, []string, *caseInfo) {
	s := c.S
	i := c.V.Proc
	res := flt.Res[i]
	p := s.Procs[i]
	e := base.Exp[i]
	log := flt.Log
	switch kind {
	case simos.FReadEACCES, simos.FReadENOENT, simos.FReadEIO, simos.FStdinEIO:
		if res.Code != 2 {
			return viol14("fault-read", p, e, "input failed with %s but exit status was %d, contract says 2 on any error; argv=%q", kind, res.Code, p.Argv), log, info
		}
		if len(res.Stderr) == 0 {
			return viol14("fault-read", p, e, "input failed with %s, exit 2, but nothing on stderr", kind), log, info
		}
	case simos.FOpenWEACCES, simos.FOpenWENOENT, simos.FOpenWEROFS, simos.FOpenWENOSPC, simos.FWriteENOSPC, simos.FWriteEIO, simos.FCloseEIO:
		if strings.HasPrefix(kind, "write-short") && len(res.Steps) > 0 {
			stats.probe("o-write-failed-after-some-sectors")
		}
		if res.Code != 2 {
			return viol14("fault-write", p, e, "writing the -o file failed with %s but exit status was %d, contract says 2 on any error; argv=%q", kind, res.Code, p.Argv), log, info
		}
	case simos.FStdoutENOSPC, simos.FStdoutEIO:
		// stdout is redirected to a disk that is full or failing (or to
		// /dev/full): the bytes the user asked for did not arrive, so a run that
		// would have succeeded must not report success. No opinion on -version,
		// -help and on runs that fail anyway (what a failing process prints on
		// stdout is unspecified).
		if fo := parseArgv(p.Argv); fo.version || fo.help || base.Res[i].Code == 2 {
			return nil, log, info
		}
		stats.probe("stdout-write-failed")
		if res.Code != 2 {
			return viol14("fault-stdout", p, e, "writing the result to stdout failed with %s (%d of %d bytes arrived) but exit status was %d, contract says 2 on any error; argv=%q", kind, len(res.Stdout), len(base.Res[i].Stdout), res.Code, p.Argv), log, info
		}
		if len(res.Stderr) == 0 {
			return viol14("fault-stdout", p, e, "writing the result to stdout failed with %s, exit 2, but nothing on stderr", kind), log, info
		}
		return nil, log, info
	case simos.FStderrEIO:
		// a broken stderr loses messages; nothing else may change
		if res.Code != base.Res[i].Code {
			return viol14("fault-stderr", p, e, "with a broken stderr the exit status is %d instead of %d; argv=%q", res.Code, base.Res[i].Code, p.Argv), log, info
		}
		if res.Code != 2 && string(res.Stdout) != string(base.Res[i].Stdout) {
			return viol14("fault-stderr", p, e, "with a broken stderr stdout differs; argv=%q", p.Argv), log, info
		}
		if same, why := fsEqual(flt.FSPost[i], base.FSPost[i]); !same {
			return viol14("fault-stderr", p, e, "with a broken stderr the files differ: %s; argv=%q", why, p.Argv), log, info
		}
		return nil, log, info
	case simos.FStdinEOF:
		// indistinguishable from a shorter input: judge against the model on
		// the bytes that were actually delivered
		delivered := deliveredStdin(res)
		in := base.Stdin[i]
		if delivered > len(in) {
			delivered = len(in)
		}
		pre := fsFromSession(s.Files, s.Dirs, s.Links)
		if i > 0 {
			pre = base.FSPost[i-1]
		}
		e2 := cliModel(p.Bin, p.Arg0, p.Argv, pre, in[:delivered])
		tmp := &sessRun{Res: make([]ProcResult, i+1), Exp: make([]Expect, i+1), FSPost: make([]*simos.FS, i+1)}
		tmp.Res[i], tmp.Exp[i], tmp.FSPost[i] = res, e2, flt.FSPost[i]
		if v := compareToModel(s, tmp, i, pre); v != nil {
			v.Clause = "fault-early-eof/" + v.Clause
			return v, log, info
		}
	default:
		return nil, log, info
	}
	if kind == simos.FStdinEOF {
		// a truncated stream is a different, legitimate input, not a failure
		// the process can notice: whatever it wrote legitimately stays
		return nil, log, info
	}
	if fo := parseArgv(p.Argv); fo.output != "" {
		for _, in := range fo.args {
			if in == fo.output {
				// the process was asked to overwrite its own input; after a
				// failed write that input is gone and a retry cannot be the same run
				return nil, log, info
			}
		}
		if p.Stdin != nil && p.Stdin.From == "file:"+fo.output {
			return nil, log, info
		}
		if fs.Fifos[fo.output] {
			// what a failed attempt wrote into a pipe has been delivered and
			// cannot be taken back: a retry is not the same run
			return nil, log, info
		}
	}
	// invariant 6: once faults stop, the same session on the disk the failed
	// attempt left behind gives exactly the fault-free result
	retry := runSession(s, fs, false, false)
	log = append(log, "-- retry without faults --")
	log = append(log, retry.Log...)
	for j := range base.Res {
		if ok, why := sameOutcome(base.Res[j], retry.Res[j]); !ok {
			return viol14("retry", s.Procs[j], e, "after a %s in process %d, the fault-free retry of process %d differs from the fault-free run: %s", kind, i, j, why), log, info
		}
	}
	if ok, why := fsEqual(retry.Final, base.Final); !ok {
		return viol14("retry", p, e, "after a %s in process %d, the fault-free retry leaves different files: %s", kind, i, why), log, info
	}
	return nil, log, info
}

func deliveredStdin(r ProcResult) int {
	n := 0
	for _, st := range r.Steps {
		if st.Kind != simos.SStdinRead || !strings.HasPrefix(st.Result, "ok ") {
			continue
		}
		x := strings.TrimPrefix(st.Result, "ok ")
		x = strings.TrimSuffix(x, "+EOF")
		k := 0
		fmt.Sscanf(x, "%d", &k)
		n += k
	}
	return n
}

// ---------------------------------------------------------------- signature

// caseInfo carries what the evidence needs to know about an evaluated case.
type caseInfo struct {
	Sig        string
	Nontrivial bool
	Steps      int
}

func (ci *caseInfo) fill(s Session, r *sessRun, v Variant, fired []simos.Fault) {
	var b strings.Builder
	b.WriteString(v.Clause)
	b.WriteByte('|')
	b.WriteString(s.Kind)
	nontrivial := false
	steps := 0
	for i, res := range r.Res {
		p := s.Procs[i]
		f := parseArgv(p.Argv)
		b.WriteString("|" + where14(p, Expect{}))
		var fl []string
		if f.set {
			fl = append(fl, "set")
		}
		if f.mset {
			fl = append(fl, "mset")
		}
		if f.setkeys != "" {
			fl = append(fl, "setkeys")
		}
		if f.yaml {
			fl = append(fl, "yaml")
		}
		if f.color {
			fl = append(fl, "color")
		}
		if f.precision != 0 {
			fl = append(fl, "precision")
		}
		if f.output != "" {
			fl = append(fl, "o")
		}
		if p.Stdin != nil {
			fl = append(fl, "stdin")
		}
		sort.Strings(fl)
		b.WriteString("{" + strings.Join(fl, ",") + "}")
		lastKind := ""
		for _, st := range res.Steps {
			k := st.Kind
			if st.Fault != "" {
				k += "!" + st.Fault
			}
			if k == lastKind && (st.Kind == simos.SWrite || st.Kind == simos.SStdinRead || st.Kind == simos.SStderr) {
				continue
			}
			lastKind = k
			b.WriteString("," + k)
		}
		fmt.Fprintf(&b, "=%d", res.Code)
		steps += len(res.Steps)
		if i < len(r.Exp) && r.Exp[i].Defined && r.Exp[i].NonEmpty {
			nontrivial = true
		}
		if len(res.Stdout) > 0 && res.Code != 2 {
			nontrivial = true
		}
	}
	if ci.Sig == "" || v.Clause != "base" {
		ci.Sig = b.String()
	}
	ci.Nontrivial = ci.Nontrivial || nontrivial
	ci.Steps += steps
}

// v1HashAliasing reports whether source or target of a round trip holds an
// array with two members that the independent comparator tells apart but the
// v1 library, asked through its public API, considers equal as set members.
// It is only used to label a failing round trip, never to excuse one silently.
func v1HashAliasing(s Session, m cmpMode) bool {
	// members of any array of either document: the lost or confused member may
	// sit in the source while its alias sits in the target
	var members []*Val
	for _, f := range s.Files {
		if f.Name != s.RT.Source && f.Name != s.RT.Target {
			continue
		}
		v, err := parseDoc(string(f.Data), s.RT.YAML)
		if err != nil || v == nil {
			continue
		}
		for _, c := range containers(v, nil) {
			if c.K == 'a' && len(c.Elems) <= 24 {
				members = append(members, c.Elems...)
			}
		}
	}
	if len(members) > 120 {
		members = members[:120]
	}
	for i := 0; i < len(members); i++ {
		for j := i + 1; j < len(members); j++ {
			if equalVals(members[i], members[j], m) {
				continue
			}
			if v1SetEqual("["+members[i].JSON(0)+"]", "["+members[j].JSON(0)+"]") {
				return true
			}
		}
	}
	return false
}

// uniqueKeyed reports whether, in every array of v, the objects carrying all
// the keys have pairwise different key values (the situation -setkeys is
// documented for).
func uniqueKeyed(v *Val, keys []string) bool {
	if v == nil {
		return true
	}
	for _, c := range containers(v, nil) {
		if c.K != 'a' {
			continue
		}
		var ids []*Val
		for _, e := range c.Elems {
			if e.K != 'o' {
				continue
			}
			id := &Val{K: 'a'}
			for _, k := range keys {
				x, ok := e.get(k)
				if !ok {
					return false
				}
				id.Elems = append(id.Elems, x)
			}
			for _, o := range ids {
				// one identity = the same value under every key (which key
				// holds which value matters)
				same := true
				for x := range keys {
					if !equalVals(o.Elems[x], id.Elems[x], cmpMode{Arrays: "set"}) {
						same = false
					}
				}
				if same {
					return false
				}
			}
			ids = append(ids, id)
		}
	}
	return true
}

// equalOutsideArrays is equalVals with the precision tolerance switched off
// inside arrays (used only to label a failure, never to excuse one silently).
func equalOutsideArrays(x, y *Val, eps float64, inArray bool) bool {
	if x == nil || y == nil {
		return x == nil && y == nil
	}
	if x.K != y.K {
		return false
	}
	switch x.K {
	case 'n':
		if inArray {
			return x.N == y.N
		}
		d := x.N - y.N
		if d < 0 {
			d = -d
		}
		return d <= eps
	case 'o':
		if len(x.Keys) != len(y.Keys) {
			return false
		}
		for i, k := range x.Keys {
			w, ok := y.get(k)
			if !ok || !equalOutsideArrays(x.Vals[i], w, eps, inArray) {
				return false
			}
		}
		return true
	case 'a':
		if len(x.Elems) != len(y.Elems) {
			return false
		}
		for i := range x.Elems {
			if !equalOutsideArrays(x.Elems[i], y.Elems[i], eps, true) {
				return false
			}
		}
		return true
	}
	return equalVals(x, y, cmpMode{Arrays: "list"})
}

// statusVsDocuments judges the exit status of a diff-mode process against the
// documents themselves: 0 exactly when the two inputs are equal under the
// reading the flags select (README: arrays as lists, sets, multisets; numbers
// within -precision), 1 exactly when they differ. The comparator is the
// harness's own (equalVals); jd's Equals and Diff are not consulted.
func statusVsDocuments(s Session, r *sessRun, i int, pre *simos.FS) *Violation {
	p, res, e := s.Procs[i], r.Res[i], r.Exp[i]
	if e.Defined && e.Status == 2 && res.Code == 2 && res.Crash == "" && strings.HasPrefix(e.Why, "diff error:") {
		// Model and process agree that the inputs cannot be diffed. Both use
		// the readers of the tree under test; the harness's own JSON parser is
		// the independent voice: a document it accepts, diffed with no option
		// that could object and rendered in the native format (which cannot
		// fail), must give 0 or 1.
		f := parseArgv(p.Argv)
		if f.err == "" && len(f.args) == 2 && !f.yaml && !f.set && !f.mset && f.setkeys == "" && f.precision == 0 && (f.format == "" || f.format == "jd") && f.translate == "" && !f.patch && !f.gitDiffDriver {
			at, ok1 := pre.Files[f.args[0]]
			bt, ok2 := pre.Files[f.args[1]]
			if ok1 && ok2 {
				_, err1 := parseDoc(string(at), false)
				_, err2 := parseDoc(string(bt), false)
				if err1 == nil && err2 == nil {
					return viol14("valid-json-rejected", p, e, "exit status 2 (%s) although both inputs are JSON documents and no option is in play: a=%s b=%s; argv=%q", e.Why, show(at), show(bt), p.Argv)
				}
			}
		}
		return nil
	}
	if !e.Defined || e.Mode != "diff" || res.Crash != "" || (res.Code != 0 && res.Code != 1) {
		return nil
	}
	f := parseArgv(p.Argv)
	if f.err != "" || len(f.args) < 1 {
		return nil
	}
	at, ok := pre.Files[f.args[0]]
	if !ok {
		return nil
	}
	var bt []byte
	if len(f.args) == 2 {
		if bt, ok = pre.Files[f.args[1]]; !ok {
			return nil
		}
	} else {
		bt = r.Stdin[i]
	}
	a, err := parseDoc(string(at), f.yaml)
	if err == nil {
		_, err = parseDoc(string(bt), f.yaml)
	}
	if err != nil {
		if !f.yaml {
			// the harness's own strict JSON parser rejects an input that this
			// process diffed as if it were a document: "2 on any error"
			return viol14("invalid-json-accepted", p, e, "exit status %d although an input is not a JSON document (%v): a=%s b=%s; argv=%q", res.Code, err, show(at), show(bt), p.Argv)
		}
		return nil
	}
	b, _ := parseDoc(string(bt), f.yaml)
	m := cmpMode{Arrays: "list", Eps: f.precision}
	var keys []string
	switch {
	case f.set:
		m.Arrays = "set"
	case f.mset:
		m.Arrays = "mset"
	case f.setkeys != "" && p.Bin == "top" && !f.v2:
		// the v1 library reads arrays as lists unless -set/-mset is given;
		// -setkeys alone only names identities for those modes
		m.Arrays = "list"
	case f.setkeys != "":
		m.Arrays = "set"
		for _, k := range strings.Split(f.setkeys, ",") {
			keys = append(keys, strings.TrimSpace(k))
		}
		if !uniqueKeyed(a, keys) || !uniqueKeyed(b, keys) {
			return nil // duplicate identities: not the documented use of -setkeys
		}
	}
	if f.setkeys != "" && len(keys) == 0 {
		for _, k := range strings.Split(f.setkeys, ",") {
			keys = append(keys, strings.TrimSpace(k))
		}
		if !uniqueKeyed(a, keys) || !uniqueKeyed(b, keys) {
			return nil
		}
	}
	stats.probe("status-judged-against-documents")
	equal := equalVals(a, b, m)
	want := 1
	if equal {
		want = 0
	}
	if res.Code == want {
		return nil
	}
	v := viol14("status-vs-documents", p, e, "exit status %d but the inputs are %s under the flags given (arrays as %s, precision %g): a=%s b=%s; argv=%q", res.Code, map[bool]string{true: "equal", false: "different"}[equal], m.Arrays, m.Eps, show(at), show(bt), p.Argv)
	if equal && m.Eps > 0 && !equalOutsideArrays(a, b, m.Eps, false) {
		v.Tag = "precision-inside-array"
	}
	if len(keys) > 1 {
		// judged on this one process alone, with its inputs as files
		s1 := Session{Files: []File{{"a", Blob(at)}, {"b", Blob(bt)}}, Procs: []ProcSpec{{Bin: p.Bin, Argv: append(append([]string(nil), p.Argv[:len(p.Argv)-len(f.args)]...), "a", "b")}}, Sector: 512}
		if setkeysPermutedIdentity(s1, keys, f.yaml) {
			v.Tag = "setkeys-permuted-identity"
		}
	}
	if where14(p, e)[:6] == "top-v1" && m.Arrays != "list" {
		s2 := Session{Files: []File{{"a", Blob(at)}, {"b", Blob(bt)}}, RT: &RoundTrip{Source: "a", Target: "b", YAML: f.yaml}}
		if v1HashAliasing(s2, m) {
			v.Tag = "v1-set-hash-aliasing"
		}
	}
	return v
}

// stripPrecision removes -precision from an argv.
func stripPrecision(argv []string) []string {
	var out []string
	for i := 0; i < len(argv); i++ {
		a := strings.TrimLeft(argv[i], "-")
		if strings.HasPrefix(argv[i], "-") && a == "precision" {
			i++ // value in the next token
			continue
		}
		if strings.HasPrefix(argv[i], "-") && strings.HasPrefix(a, "precision=") {
			continue
		}
		out = append(out, argv[i])
	}
	return out
}

// roundTripWorksWithoutPrecision re-runs a round-trip session with -precision
// removed on both sides and reports whether it then reproduces the second
// input exactly. Used only to label a failing round trip.
func roundTripWorksWithoutPrecision(s Session) bool {
	s2 := s
	s2.Procs = append([]ProcSpec(nil), s.Procs...)
	for i := range s2.Procs {
		s2.Procs[i].Argv = stripPrecision(s.Procs[i].Argv)
	}
	rt := *s.RT
	rt.Eps = 0
	s2.RT = &rt
	r := runSession(s2, fsFromSession(s2.Files, s2.Dirs, s2.Links), false, false)
	ok, _, _ := roundTripPromised(s2, r)
	return ok && checkRoundTrip(s2, r) == nil
}

// permutedIdentities reports whether two array members of the given documents
// (of one document, or one of each: the differ pairs members of the first
// input with members of the second) that carry all the keys hold the same key
// values taken together, but not key by key: {"id":1,"ns":2} and
// {"id":2,"ns":1}.
func permutedIdentities(docs []*Val, keys []string) bool {
	if len(keys) < 2 {
		return false
	}
	m := cmpMode{Arrays: "set"}
	var ids [][]*Val
	for _, v := range docs {
		if v == nil {
			continue
		}
		for _, c := range containers(v, nil) {
			if c.K != 'a' {
				continue
			}
			for _, e := range c.Elems {
				if e.K != 'o' {
					continue
				}
				var id []*Val
				for _, k := range keys {
					if x, ok := e.get(k); ok {
						id = append(id, x)
					}
				}
				if len(id) == len(keys) {
					ids = append(ids, id)
				}
			}
		}
	}
	for i, id := range ids {
		for _, o := range ids[:i] {
			same := true
			for x := range id {
				if !equalVals(o[x], id[x], m) {
					same = false
				}
			}
			if same {
				continue
			}
			used := make([]bool, len(id))
			matched := 0
			for _, x := range o {
				for j, y := range id {
					if !used[j] && equalVals(x, y, m) {
						used[j] = true
						matched++
						break
					}
				}
			}
			if matched == len(id) {
				return true
			}
		}
	}
	return false
}

// setkeysPermutedIdentity labels a failure of a -setkeys session with two or
// more keys: it holds when a document of the session has members whose key
// values are permutations of one another and the very same session passes
// once every value of the second and later keys is wrapped into an object of
// its own (so that no key value can be mistaken for another key's).
func setkeysPermutedIdentity(s Session, keys []string, yaml bool) bool {
	if len(keys) < 2 {
		return false
	}
	var docs []*Val
	for _, f := range s.Files {
		if v, err := parseDoc(string(f.Data), yaml); err == nil && v != nil {
			docs = append(docs, v)
		}
	}
	found := permutedIdentities(docs, keys)
	return sessionPassesAfter(s, yaml, func(v *Val) bool {
		for _, c := range containers(v, nil) {
			if c.K != 'a' {
				continue
			}
			for _, e := range c.Elems {
				if e.K != 'o' {
					continue
				}
				for j, k := range keys {
					if x, ok := e.get(k); ok && j > 0 {
						e.set(k, &Val{K: 'o', Keys: []string{"of-" + k}, Vals: []*Val{x}})
					}
				}
			}
		}
		return found
	})
}

// yamlMergeKey labels a failure of a YAML session: it holds when a document of
// the session has an object key "<<" (which yaml.v2 writes unquoted, and which
// then reads back as a YAML merge key) and the very same session passes once
// that key is called "lt".
func yamlMergeKey(s Session) bool {
	return sessionPassesAfter(s, true, func(v *Val) bool {
		found := false
		for _, c := range containers(v, nil) {
			if c.K != 'o' {
				continue
			}
			for i, k := range c.Keys {
				if k == "<<" {
					found = true
					c.Keys[i] = "lt-was-merge-key"
				}
			}
		}
		return found
	})
}

// sessionPassesAfter rewrites every document file of the session with rewrite
// (which reports whether the document had the shape in question), and, if some
// document had it, re-runs the rewritten session and reports whether the
// status and round-trip clauses of C14 all hold for it. Used only to label a
// failure with its cause, never to excuse one silently.
func sessionPassesAfter(s Session, yaml bool, rewrite func(v *Val) bool) bool {
	s2 := s
	s2.Files = append([]File(nil), s.Files...)
	found := false
	for i, f := range s2.Files {
		v, err := parseDoc(string(f.Data), yaml)
		if err != nil || v == nil {
			continue
		}
		v = v.clone()
		if rewrite(v) {
			found = true
		}
		s2.Files[i].Data = Blob(v.JSON(0))
	}
	if !found {
		return false
	}
	if s.RT != nil {
		rt := *s.RT
		s2.RT = &rt
	}
	r := runSession(s2, fsFromSession(s2.Files, s2.Dirs, s2.Links), true, false)
	pre := fsFromSession(s2.Files, s2.Dirs, s2.Links)
	for i := range r.Res {
		if statusVsDocuments(s2, r, i, pre) != nil {
			return false
		}
		pre = r.FSPost[i]
	}
	return checkRoundTrip(s2, r) == nil
}
