package main

import (
	"encoding/json"
	"fmt"
	"sort"
	"strings"
	"sync"

	jd "github.com/josephburnett/jd/v2"
	verifseam "github.com/josephburnett/jd/v2/verif/seam"
	"github.com/josephburnett/jd/v2/verif/simos"
)

// ---------------------------------------------------------------- case

// TextSrc is a diff held as text, read into a shared diff value by a reader.
type TextSrc struct {
	Kind string `json:"kind"` // merge | patch | jd | cat
	Text string `json:"text,omitempty"`
	// Cat (kind "cat"): not a text at all but a diff the caller assembled from
	// two earlier shared diffs, append(copy of diff Cat[0], copy of diff
	// Cat[1]...). Diff is an exported slice type with exported fields; such a
	// value (merge hunks followed by strict ones, say) is legal API use that
	// no reader produces.
	Cat [2]int `json:"cat,omitempty"`
	// Derive: the text is rendered from A.Diff(B) when the world is built
	// ("patch" or "jd"), so that a generated case never embeds jd output
	Derive string `json:"derive,omitempty"`
}

// Call is one read-only API call of a history.
type Call struct {
	Op string `json:"op"`
	D  int    `json:"d,omitempty"` // index of a shared diff
	N  int    `json:"n,omitempty"` // 0 = A, 1 = B
	O  int    `json:"o,omitempty"` // index of an option set
	T  int    `json:"t,omitempty"` // index of a text source
	E  int    `json:"e,omitempty"` // hunk index for element rendering
}

// MapOrder says how the simulator resolves map iteration order during the
// history: every executed map range with at least two keys gets a permutation
// derived from (Seed, ordinal of the range execution) in the given mode.
type MapOrder struct {
	Mode  string   `json:"mode"`            // canonical | reverse | rotate | shuffle | mixed
	Seed  uint64   `json:"seed,omitempty"`  // for rotate / shuffle / mixed
	Sites []string `json:"sites,omitempty"` // when non-empty, only these source sites are permuted
}

// C15Case is a world of shared values plus a history of calls on them.
type C15Case struct {
	A     string     `json:"a"`
	B     string     `json:"b"`
	YAML  bool       `json:"yaml,omitempty"`
	Opts  [][]string `json:"option_sets"` // e.g. ["SET"], ["MERGE"], ["SetKeys:id"], ["Precision:0.5"]
	Texts []TextSrc  `json:"texts,omitempty"`
	Calls []Call     `json:"calls"`
	Order MapOrder   `json:"map_order"`
	// Reorder, when non-zero, asks for a second pass: the same calls on fresh
	// copies of the same values in another order (1 = reversed, otherwise a
	// permutation derived from the number). "In any order" is part of C15.
	Reorder uint64 `json:"reorder,omitempty"`
	// Clock: how simulated time passes during the live calls of the history
	// (the reference executions always run under the steady clock).
	Clock simos.ClockPolicy `json:"clock,omitempty"`
	// Sched seeds the goroutine scheduler for the live calls (trees with
	// goroutines only); the reference executions use another schedule.
	Sched uint64 `json:"schedule_seed,omitempty"`
	// WarmUp lists histories the process lived through before this one. Only
	// the comparison of a cold process with a warm one uses it.
	WarmUp []C15Case `json:"warm_up,omitempty"`
	// WarmRange names warm-up histories by run number instead of spelling
	// them out (the soak comparison warms a process up with thousands).
	WarmRange *WarmRange `json:"warm_range,omitempty"`
}

// WarmRange: the histories of runs From..To-1 of a seed.
type WarmRange struct {
	Seed uint64 `json:"seed"`
	From int64  `json:"from"`
	To   int64  `json:"to"`
}

// soakNoReset, when set, keeps package state of the library across histories
// (the soak comparison's second pass).
var soakNoReset bool

// usesDiff reports whether a call reads one of the shared diffs.
func usesDiff(op string) bool {
	return strings.Contains(op, "Render")
}

func orderKey(call Call) string {
	d := call.D
	if !usesDiff(call.Op) {
		d = -1
	}
	return fmt.Sprintf("%s|%d|%d|%d|%d|%d", call.Op, d, call.N, call.O, call.T, call.E)
}

func mkOptions(names []string) []jd.Option {
	var o []jd.Option
	for _, n := range names {
		switch {
		case n == "SET":
			o = append(o, jd.SET)
		case n == "MULTISET":
			o = append(o, jd.MULTISET)
		case n == "MERGE":
			o = append(o, jd.MERGE)
		case n == "COLOR":
			o = append(o, jd.COLOR)
		case strings.HasPrefix(n, "SetKeys:"):
			o = append(o, jd.SetKeys(strings.Split(strings.TrimPrefix(n, "SetKeys:"), ",")...))
		case strings.HasPrefix(n, "Precision:"):
			var f float64
			fmt.Sscanf(strings.TrimPrefix(n, "Precision:"), "%g", &f)
			o = append(o, jd.Precision(f))
		}
	}
	return o
}

// ---------------------------------------------------------------- map order hook

var hookMu sync.Mutex

type orderState struct {
	mo      MapOrder
	ordinal uint64
	sites   map[string]int64 // site -> times permuted non-trivially
}

func (st *orderState) install() {
	verifseam.Hook = func(site string, n int) (int, uint64) {
		// jd has no goroutines; a changed tree might. The hook must survive
		// being called from several at once (what it then decides depends on
		// their scheduling, which is the tree's nondeterminism, not ours).
		hookMu.Lock()
		defer hookMu.Unlock()
		st.ordinal++
		if st.mo.Mode == "" || st.mo.Mode == "canonical" {
			return verifseam.Canonical, 0
		}
		if len(st.mo.Sites) > 0 {
			ok := false
			for _, s := range st.mo.Sites {
				if s == site {
					ok = true
				}
			}
			if !ok {
				return verifseam.Canonical, 0
			}
		}
		r := mix(st.mo.Seed, st.ordinal)
		mode := verifseam.Canonical
		switch st.mo.Mode {
		case "reverse":
			mode = verifseam.Reverse
		case "rotate":
			mode = verifseam.Rotate
		case "shuffle":
			mode = verifseam.Shuffle
		case "mixed":
			mode = int(r>>60) % 4
		}
		if mode != verifseam.Canonical {
			st.sites[site]++
			if n >= 3 {
				stats.probe("map-range-with-3+-keys-permuted")
			}
		}
		return mode, r
	}
}

func uninstallOrder() { verifseam.Hook = nil }

// ---------------------------------------------------------------- world

type shared struct {
	name     string
	live     any // jd.JsonNode or jd.Diff
	pristine any // deep copy taken when the value entered the world
	print    string
}

type world struct {
	sharedOpts [][]jd.Option // one slice per option set (plus two for render options), spare capacity filled with sentinels
	optsPrint  string
	memo       map[string]string // first result of every call signature in this history
	c          C15Case
	nodes      []*shared // A, B
	diffs      []*shared
	log        []string
}

func (w *world) addDiff(name string, live jd.Diff, ref jd.Diff) {
	p := deepCopyAny(ref)
	w.diffs = append(w.diffs, &shared{name: name, live: live, pristine: p, print: fingerprint(p)})
}

func readDoc(text string, yaml bool) (jd.JsonNode, error) {
	if yaml {
		return jd.ReadYamlString(text)
	}
	return jd.ReadJsonString(text)
}

func readText(t TextSrc) (jd.Diff, error) {
	switch t.Kind {
	case "cat":
		return jd.Diff{}, nil
	case "merge":
		return jd.ReadMergeString(t.Text)
	case "patch":
		return jd.ReadPatchString(t.Text)
	default:
		return jd.ReadDiffString(t.Text)
	}
}

// outcome of one call: a comparable rendering of everything it returned.
type outcome struct {
	text string // strings / booleans / diff fingerprints
	err  bool
	pan  string
	val  any // the value returned, when it is a diff or a document
}

func (o outcome) String() string {
	if o.pan != "" {
		return "panic: " + o.pan
	}
	if o.err {
		return "error"
	}
	return o.text
}

// callSched seeds the goroutine scheduler for the next guarded call (trees
// with goroutines only). Live calls of a history use the schedule of the case,
// reference calls another one: an output that depends on the interleaving is
// an output that is not a function of the inputs.
var callSched uint64

func guardCall(f func() outcome) (o outcome) {
	guarded := func() {
		defer func() {
			if r := recover(); r != nil {
				o = outcome{pan: fmt.Sprint(r)}
			}
		}()
		o = f()
	}
	if simos.TreeHasGoroutines && simos.T != nil && !simos.Scheduled() {
		// most calls start no goroutine: try without the scheduler first
		simos.ArmTrip(true)
		guarded()
		trip := simos.Tripped()
		simos.ArmTrip(false)
		if !trip {
			return o
		}
		o = outcome{}
		callSched = mix(callSched, 1)
		r := simos.RunScheduled(callSched, guarded)
		harvestSched()
		switch {
		case r.Crash != nil:
			o = outcome{pan: "a goroutine started by the call panicked: " + r.Crash.Value}
		case r.Deadlock:
			o = outcome{pan: "the call never returns: all goroutines are blocked (" + strings.Join(lastN(r.Trace, 6), " ") + ")"}
		}
		return o
	}
	guarded()
	return o
}

// exec performs call c on the given values (live or fresh copies) and returns
// its outcome and, for calls that produce a diff, the diff.
func execCall(c Call, cs C15Case, a, b jd.JsonNode, diffs []jd.Diff, sharedOpts [][]jd.Option) (outcome, jd.Diff) {
	var produced jd.Diff
	stats.LibCalls++
	node := a
	if c.N == 1 {
		node = b
	}
	var opts []jd.Option
	if c.O >= 0 && c.O < len(cs.Opts) {
		opts = mkOptions(cs.Opts[c.O])
		if sharedOpts != nil {
			// the caller's own option slice, with spare capacity behind it:
			// an option list is an argument too
			opts = sharedOpts[c.O][:len(opts)]
		}
	}
	renderOpts := func(extra ...jd.Option) []jd.Option {
		if sharedOpts == nil || c.O < 0 || c.O >= len(cs.Opts) {
			return extra
		}
		// render options handed over as a prefix of a longer slice
		r := sharedOpts[len(cs.Opts)+c.O%2]
		return r[:len(extra)]
	}
	_ = renderOpts
	var d jd.Diff
	if c.D >= 0 && c.D < len(diffs) {
		d = diffs[c.D]
	}
	o := guardCall(func() outcome {
		switch c.Op {
		case "Diff":
			produced = a.Diff(b, opts...)
			return outcome{text: fingerprint(produced), val: produced}
		case "DiffBA":
			produced = b.Diff(a, opts...)
			return outcome{text: fingerprint(produced), val: produced}
		case "Equals":
			return outcome{text: fmt.Sprint(a.Equals(b, opts...))}
		case "Json":
			return outcome{text: node.Json(opts...)}
		case "Yaml":
			return outcome{text: node.Yaml(opts...)}
		case "Render":
			return outcome{text: d.Render()}
		case "RenderColor":
			return outcome{text: d.Render(renderOpts(jd.COLOR)...)}
		case "RenderWith":
			// rendering under the option set of the call (MERGE among them):
			// options given to a renderer describe the rendering, not the diff
			return outcome{text: d.Render(opts...)}
		case "ElemRenderWith":
			if len(d) == 0 {
				return outcome{text: ""}
			}
			return outcome{text: d[c.E%len(d)].Render(opts...)}
		case "RenderPatch":
			s, err := d.RenderPatch()
			return outcome{text: s, err: err != nil}
		case "RenderMerge":
			s, err := d.RenderMerge()
			return outcome{text: s, err: err != nil}
		case "ElemRender":
			if len(d) == 0 {
				return outcome{text: ""}
			}
			return outcome{text: d[c.E%len(d)].Render()}
		case "ElemRenderColor":
			if len(d) == 0 {
				return outcome{text: ""}
			}
			return outcome{text: d[c.E%len(d)].Render(renderOpts(jd.COLOR)...)}
		case "Read":
			if c.T < 0 || c.T >= len(cs.Texts) {
				return outcome{}
			}
			x, err := readText(cs.Texts[c.T])
			produced = x
			return outcome{text: fingerprint(x), err: err != nil, val: x}
		case "PatchPrivate":
			// everything private and thrown away: a document parsed for the
			// occasion is patched with two diffs read for the occasion
			if len(cs.Texts) == 0 {
				return outcome{}
			}
			d1, err := readText(cs.Texts[c.T%len(cs.Texts)])
			if err != nil {
				return outcome{err: true}
			}
			d2, err := readText(cs.Texts[(c.T+1)%len(cs.Texts)])
			if err != nil {
				return outcome{err: true}
			}
			doc, err := readDoc(cs.A, cs.YAML)
			if err != nil {
				return outcome{err: true}
			}
			r, err := doc.Patch(d1)
			if err != nil {
				return outcome{err: true}
			}
			r2, err := r.Patch(d2)
			if err != nil {
				return outcome{text: "first only: " + r.Json()}
			}
			return outcome{text: r2.Json()}
		case "ReadDoc":
			text := cs.A
			if c.N == 1 {
				text = cs.B
			}
			x, err := readDoc(text, cs.YAML)
			if err != nil {
				return outcome{err: true}
			}
			return outcome{text: fingerprint(x), val: x}
		}
		return outcome{text: "?"}
	})
	if o.err || o.pan != "" {
		produced = nil
	}
	return o, produced
}

func viol15(clause, where, format string, a ...any) *Violation {
	return &Violation{Prop: "C15", Clause: clause, Where: where, Detail: fmt.Sprintf(format, a...)}
}

var lastSites15 []string

// trace15, when set, collects one line per call with the complete output, for
// the comparison across fresh processes.
var trace15 *[]string

func (w *world) operandPrint() string {
	var b strings.Builder
	for _, s := range w.nodes {
		b.WriteString(s.print)
	}
	for _, s := range w.diffs {
		b.WriteString(fingerprint(s.live))
	}
	return b.String()
}

// checkC15 runs the history of a case and evaluates the four invariants.
func checkC15(c C15Case) (*Violation, []string, *caseInfo) {
	info := &caseInfo{}
	uninstallOrder()
	if len(c.WarmUp) > 0 || c.WarmRange != nil {
		// what this process did before: other histories, results discarded
		saved, savedSoak := trace15, soakNoReset
		trace15, soakNoReset = nil, true
		warm := func(wc C15Case) {
			wc.WarmUp, wc.WarmRange, wc.Reorder = nil, nil, 0
			defer func() { recover() }()
			checkC15(wc)
		}
		if r := c.WarmRange; r != nil {
			for run := r.From; run < r.To; run++ {
				warm(genCase15(newChooser(runSeed(r.Seed, "C15", run))))
			}
		}
		for _, wc := range c.WarmUp {
			warm(wc)
		}
		trace15, soakNoReset = saved, savedSoak
	} else if !soakNoReset {
		simos.ResetGlobals() // a history is one process lifetime: start it with fresh package state
	}
	a, errA := readDoc(c.A, c.YAML)
	b, errB := readDoc(c.B, c.YAML)
	// reading a document is itself a call whose result must not depend on map
	// iteration order (YAML mappings arrive as Go maps)
	{
		st := &orderState{mo: c.Order, sites: map[string]int64{}}
		for i, text := range []string{c.A, c.B} {
			st.install()
			var n jd.JsonNode
			var err error
			out := guardCall(func() outcome { n, err = readDoc(text, c.YAML); return outcome{} })
			uninstallOrder()
			ref, refErr := a, errA
			if i == 1 {
				ref, refErr = b, errB
			}
			stats.LibCalls++
			if out.pan != "" {
				continue
			}
			if (err != nil) != (refErr != nil) || err == nil && fingerprint(n) != fingerprint(ref) {
				got, want := "error", "error"
				if err == nil {
					got = fingerprint(n)
				}
				if refErr == nil {
					want = fingerprint(ref)
				}
				return viol15("same-output", "ReadDoc", "reading the same %s text twice gives %s under one map iteration order and %s under another; text=%s", map[bool]string{true: "YAML", false: "JSON"}[c.YAML], showStr(got), showStr(want), showStr(text)), nil, info
			}
		}
	}
	if errA != nil || errB != nil || a == nil || b == nil {
		return nil, nil, info
	}
	w := &world{c: c, memo: map[string]string{}}
	firstByOrderKey := map[string]string{}
	nInit := len(c.Opts) + len(c.Texts)
	sentinels := []jd.Option{jd.COLOR, jd.SET, jd.MULTISET, jd.Precision(7)}
	for _, o := range c.Opts {
		w.sharedOpts = append(w.sharedOpts, append(mkOptions(o), sentinels...))
	}
	w.sharedOpts = append(w.sharedOpts, append([]jd.Option{jd.COLOR}, sentinels...), append([]jd.Option{jd.COLOR}, sentinels[1:]...))
	w.optsPrint = fingerprint(w.sharedOpts)
	w.nodes = []*shared{
		{name: "A", live: a, pristine: deepCopyAny(a)},
		{name: "B", live: b, pristine: deepCopyAny(b)},
	}
	for _, n := range w.nodes {
		n.print = fingerprint(n.pristine)
	}
	// world construction under canonical order: one diff per option set, one
	// per text source
	for i, o := range c.Opts {
		var d jd.Diff
		out := guardCall(func() outcome { d = a.Diff(b, mkOptions(o)...); return outcome{} })
		if out.pan != "" {
			return nil, nil, info // a panicking Diff is not C15's business
		}
		w.addDiff(fmt.Sprintf("D[%s]", strings.Join(c.Opts[i], "+")), d, d)
	}
	for i := range c.Texts {
		if c.Texts[i].Derive != "" && c.Texts[i].Text == "" {
			c.Texts[i].Text = privateRender(c.A, c.B, c.Texts[i].Derive)
		}
	}
	for i, t := range c.Texts {
		var d jd.Diff
		var err error
		out := guardCall(func() outcome { d, err = readText(t); return outcome{} })
		if out.pan != "" || err != nil {
			d = jd.Diff{}
		}
		if t.Kind == "cat" && t.Cat[0] < len(w.diffs) && t.Cat[1] < len(w.diffs) {
			// assembled by the caller from private copies of two earlier diffs
			d = append(deepCopyAny(w.diffs[t.Cat[0]].pristine).(jd.Diff), deepCopyAny(w.diffs[t.Cat[1]].pristine).(jd.Diff)...)
			stats.probe("caller-assembled-diff")
		}
		w.addDiff(fmt.Sprintf("R[%d:%s]", i, t.Kind), d, d)
	}
	nontrivial := false
	shape := ""
	multiHunk, multiValue, voidAdd := false, false, false
	for _, s := range w.diffs {
		d := s.live.(jd.Diff)
		if len(d) >= 2 {
			nontrivial = true
			multiHunk = true
		}
		for _, e := range d {
			if len(e.Add) > 1 || len(e.Remove) > 1 {
				nontrivial = true
				multiValue = true
			}
			for _, x := range e.Add {
				if fingerprint(x) == "jd.voidNode{}" {
					nontrivial = true
					voidAdd = true
				}
			}
		}
		shape += fmt.Sprintf("%d.", min(len(d), 3))
	}
	_ = shape
	shapeClass := fmt.Sprintf("multihunk=%v,multivalue=%v,void=%v", multiHunk, multiValue, voidAdd)
	if trace15 != nil {
		ab := strSeed(w.nodes[0].print + w.nodes[1].print)
		for _, s := range w.diffs {
			*trace15 = append(*trace15, fmt.Sprintf("construct - %s operands=%x output=%q", s.name, ab, fingerprint(s.live)))
		}
	}
	// invariant 2 must hold already after construction (Diff is in the list)
	if v := w.checkUnchanged("world construction (Diff under each option set)"); v != nil {
		return v, w.log, info
	}

	st := &orderState{mo: c.Order, sites: map[string]int64{}}
	defer func() {
		uninstallOrder()
		lastSites15 = lastSites15[:0]
		for s, n := range st.sites {
			if stats.MapSites == nil {
				stats.MapSites = map[string]int64{}
			}
			stats.MapSites[s] += n
			lastSites15 = append(lastSites15, s)
		}
		sort.Strings(lastSites15)
	}()
	var ops []string
	for i, call := range c.Calls {
		ops = append(ops, call.Op)
		// live execution under the simulator's map order
		liveDiffs := make([]jd.Diff, len(w.diffs))
		for j, s := range w.diffs {
			liveDiffs[j] = s.live.(jd.Diff)
		}
		st.install()
		simos.SetClock(c.Clock)
		callSched = mix(c.Sched, uint64(i))
		got, produced := execCall(call, c, w.nodes[0].live.(jd.JsonNode), w.nodes[1].live.(jd.JsonNode), liveDiffs, w.sharedOpts)
		harvestClock()
		uninstallOrder()
		// reference execution: fresh deep copies of the pristine twins, canonical order
		refDiffs := make([]jd.Diff, len(w.diffs))
		for j, s := range w.diffs {
			refDiffs[j] = deepCopyAny(s.pristine).(jd.Diff)
		}
		callSched = mix(c.Sched, uint64(i), 0x5eed)
		want, refProduced := execCall(call, c, deepCopyAny(w.nodes[0].pristine).(jd.JsonNode), deepCopyAny(w.nodes[1].pristine).(jd.JsonNode), refDiffs, nil)
		where := call.Op
		if call.Op == "Read" && call.T < len(c.Texts) {
			where = "Read:" + c.Texts[call.T].Kind
		}
		w.log = append(w.log, fmt.Sprintf("call %d %s d=%d o=%d n=%d -> %x (reference %x)", i, call.Op, call.D, call.O, call.N, strSeed(got.String()), strSeed(want.String())))
		if trace15 != nil {
			*trace15 = append(*trace15, fmt.Sprintf("call %d %s operands=%x output=%q", i, call.Op, strSeed(w.operandPrint()), got.String()))
		}
		if want.pan != "" && got.pan != "" {
			continue // the call panics on pristine input too: C13's business
		}
		if !got.err && got.pan == "" {
			switch call.Op {
			case "RenderPatch":
				if call.D < len(liveDiffs) {
					for _, e := range liveDiffs[call.D] {
						if len(e.Add) > 1 {
							stats.probe("multi-add-hunk-rendered-as-json-patch")
						}
					}
				}
			case "RenderMerge":
				if call.D < len(liveDiffs) {
					for _, e := range liveDiffs[call.D] {
						for _, x := range e.Add {
							if fingerprint(x) == "jd.voidNode{}" {
								stats.probe("void-addition-rendered-as-merge-patch")
							}
						}
					}
					if call.D >= len(c.Opts) && call.D < len(c.Opts)+len(c.Texts) && c.Texts[call.D-len(c.Opts)].Derive == "" && c.Texts[call.D-len(c.Opts)].Kind == "jd" {
						stats.probe("hand-written-merge-hunks-rendered-as-merge-patch")
					}
				}
			case "Read":
				if call.T < len(c.Texts) && c.Texts[call.T].Kind == "merge" && c.Order.Mode != "canonical" {
					stats.probe("merge-patch-read-under-permuted-map-order")
				}
			}
		}
		if got.pan == "" && want.pan == "" && !got.err && !want.err && got.text != want.text && got.val != nil && want.val != nil && observe(got.val) == observe(want.val) {
			// the two results differ in representation only (a cache filled
			// in one and not in the other, say): every public observer gives
			// the same answers, which is all the property speaks about
			stats.probe("results-differ-in-representation-only")
			got.text = want.text
		}
		if got.pan != want.pan || got.err != want.err || (!got.err && got.text != want.text) {
			target := "-"
			if call.D < len(w.diffs) && strings.Contains(call.Op, "Render") {
				target = w.diffs[call.D].name
			}
			return viol15("same-output", where, "call %d %s on %s returned %s; the same call on untouched copies of the original values (canonical map order) returns %s. History so far: %s", i, call.Op, target, showStr(got.String()), showStr(want.String()), strings.Join(ops, " · ")), w.log, info
		}
		if now := fingerprint(w.sharedOpts); now != w.optsPrint {
			return viol15("no-mutation", call.Op, "call %d %s wrote into the option slice it was given (beyond its length, into the caller's spare capacity): it was %s and is now %s. History so far: %s", i, call.Op, showStr(diffPrints(w.optsPrint, now)), showStr(diffPrints(now, w.optsPrint)), strings.Join(ops, " · ")), w.log, info
		}
		// the same call on the same (unchanged) values, later in the same
		// process, gives what it gave the first time
		sigKey := fmt.Sprintf("%s|%d|%v|%d|%d|%d|%d", call.Op, call.D, call.D < len(liveDiffs), call.N, call.O, call.T, call.E)
		if first, seen := w.memo[sigKey]; seen && first != got.String() {
			return viol15("same-output-on-repeat", where, "call %d %s returned %s; the same call on the same unchanged values returned %s earlier in this history: %s", i, call.Op, showStr(got.String()), showStr(first), strings.Join(ops, " · ")), w.log, info
		} else if !seen {
			w.memo[sigKey] = got.String()
		}
		if !usesDiff(call.Op) || call.D < nInit {
			if _, seen := firstByOrderKey[orderKey(call)]; !seen {
				firstByOrderKey[orderKey(call)] = got.String()
			}
		}
		if v := w.checkUnchanged(fmt.Sprintf("call %d %s", i, call.Op)); v != nil {
			v.Detail += " History so far: " + strings.Join(ops, " · ")
			return v, w.log, info
		}
		if produced != nil && len(w.diffs) < 12 {
			w.addDiff(fmt.Sprintf("P[%d:%s]", i, call.Op), produced, refProduced)
		}
	}
	// "in any order": the same calls, on fresh copies of the same values, in a
	// fresh process state and another order, return what they returned above.
	// The initial diffs are reflection copies of the pristine twins, so this
	// pass begins without having called Diff at all.
	if c.Reorder != 0 && len(c.Calls) > 1 && !soakNoReset {
		stats.probe("history-re-executed-in-another-order")
		simos.ResetGlobals()
		ra, errRA := readDoc(c.A, c.YAML)
		rb, errRB := readDoc(c.B, c.YAML)
		if errRA == nil && errRB == nil && ra != nil && rb != nil {
			rdiffs := make([]jd.Diff, nInit)
			for j := 0; j < nInit; j++ {
				rdiffs[j] = deepCopyAny(w.diffs[j].pristine).(jd.Diff)
			}
			idx := make([]int, len(c.Calls))
			for i := range idx {
				idx[i] = len(idx) - 1 - i
			}
			if c.Reorder != 1 {
				r := c.Reorder
				for i := len(idx) - 1; i > 0; i-- {
					r = mix(r, uint64(i))
					j := int(r % uint64(i+1))
					idx[i], idx[j] = idx[j], idx[i]
				}
			}
			var rops []string
			for _, i := range idx {
				call := c.Calls[i]
				first, ok := firstByOrderKey[orderKey(call)]
				if !ok {
					continue
				}
				rops = append(rops, call.Op)
				got, _ := execCall(call, c, ra, rb, rdiffs, nil)
				if got.String() != first {
					// representation-only differences are tolerated as above
					same := false
					if got.val != nil && got.pan == "" && !got.err {
						fresh, _ := execCall(call, c, deepCopyAny(w.nodes[0].pristine).(jd.JsonNode), deepCopyAny(w.nodes[1].pristine).(jd.JsonNode), rdiffs, nil)
						same = fresh.val != nil && observe(fresh.val) == observe(got.val) && fresh.String() == first
					}
					if !same {
						where := call.Op
						if call.Op == "Read" && call.T < len(c.Texts) {
							where = "Read:" + c.Texts[call.T].Kind
						}
						return viol15("same-output-any-order", where, "%s returned %s when the history ran as %s, and %s when the same calls ran on fresh copies of the same values in the order %s", call.Op, showStr(first), strings.Join(ops, " · "), showStr(got.String()), strings.Join(rops, " · ")), w.log, info
					}
				}
			}
		}
	}
	// invariant 3: every shared diff still patches like its never-used twin
	for _, s := range w.diffs {
		live := deepCopyAny(s.live).(jd.Diff)
		twin := deepCopyAny(s.pristine).(jd.Diff)
		t1, _ := readDoc(c.A, c.YAML)
		t2, _ := readDoc(c.A, c.YAML)
		r1 := guardCall(func() outcome {
			n, err := t1.Patch(live)
			if err != nil {
				return outcome{err: true}
			}
			return outcome{text: n.Json()}
		})
		r2 := guardCall(func() outcome {
			n, err := t2.Patch(twin)
			if err != nil {
				return outcome{err: true}
			}
			return outcome{text: n.Json()}
		})
		stats.LibCalls += 2
		if r1.pan != "" && r2.pan != "" {
			continue
		}
		if r1.String() != r2.String() {
			return viol15("still-patches", "Patch", "after the history %s, patching A with %s gives %s; patching with its never-used twin gives %s", strings.Join(ops, " · "), s.name, showStr(r1.String()), showStr(r2.String())), w.log, info
		}
	}
	// the same values, then patch: the live document patched with one of its
	// live diffs (nothing copied) must end like fresh copies do. This is the
	// last use of the live A: Patch may edit its receiver.
	if n := len(c.Opts); n > 0 {
		s := w.diffs[len(c.Calls)%n]
		t2, _ := readDoc(c.A, c.YAML)
		twin := deepCopyAny(s.pristine).(jd.Diff)
		r2 := guardCall(func() outcome {
			x, err := t2.Patch(twin)
			if err != nil {
				return outcome{err: true}
			}
			return outcome{text: x.Json()}
		})
		liveA, liveD := w.nodes[0].live.(jd.JsonNode), s.live.(jd.Diff)
		r1 := guardCall(func() outcome {
			x, err := liveA.Patch(liveD)
			if err != nil {
				return outcome{err: true}
			}
			return outcome{text: x.Json()}
		})
		stats.LibCalls += 2
		if !r1.err && r1.pan == "" {
			stats.probe("live-document-patched-in-place-with-live-diff")
		}
		// judged only when the diff applies to clean copies at all: a diff that
		// does not apply even then is broken for reasons that have nothing to
		// do with purity (C01's subject)
		if !r2.err && r2.pan == "" && r1.String() != r2.String() {
			return viol15("still-patches-in-place", "Patch", "after the history %s, A.Patch(%s) on the very values the history used gives %s; fresh copies of the original document and diff give %s", strings.Join(ops, " · "), s.name, showStr(r1.String()), showStr(r2.String())), w.log, info
		}
	}
	// signature: the set of call classes that occurred, what the shared diffs
	// look like (multi-hunk / multi-value hunk / void addition), whether merge
	// or set readings are in play, and the map-order mode
	classOf := map[string]string{"Diff": "Diff", "DiffBA": "Diff", "Equals": "Equals", "Json": "JsonYaml", "Yaml": "JsonYaml",
		"Render": "Render", "RenderColor": "Render", "ElemRender": "Render", "ElemRenderColor": "Render", "RenderWith": "Render", "ElemRenderWith": "Render",
		"RenderPatch": "RenderPatch", "RenderMerge": "RenderMerge", "Read": "Read", "ReadDoc": "Read", "PatchPrivate": "PatchPrivate"}
	uniq := map[string]bool{}
	var kinds []string
	for _, o := range ops {
		k := classOf[o]
		if !uniq[k] {
			uniq[k] = true
			kinds = append(kinds, k)
		}
	}
	sort.Strings(kinds)
	hasMerge, hasSet := false, false
	for _, os := range c.Opts {
		for _, o := range os {
			if o == "MERGE" {
				hasMerge = true
			}
			if o == "SET" || o == "MULTISET" || strings.HasPrefix(o, "SetKeys") {
				hasSet = true
			}
		}
	}
	info.Sig = fmt.Sprintf("%s|%s|merge=%v|set=%v|%s", strings.Join(kinds, ","), shapeClass, hasMerge, hasSet, c.Order.Mode)
	info.Nontrivial = nontrivial
	info.Steps = len(c.Calls)
	return nil, w.log, info
}

func showStr(s string) string {
	if len(s) > 400 {
		s = s[:400] + "..."
	}
	return fmt.Sprintf("%q", s)
}

// checkUnchanged is invariant 2: no shared value differs from its pristine twin.
func (w *world) checkUnchanged(after string) *Violation {
	for _, s := range append(append([]*shared(nil), w.nodes...), w.diffs...) {
		now := fingerprint(s.live)
		if now != s.print && observe(s.live) == observe(s.pristine) {
			// representation changed, observable value did not (lazily filled
			// cache): accept the new representation as the baseline
			stats.probe("shared-value-changed-in-representation-only")
			s.print = now
			s.pristine = deepCopyAny(s.live)
			continue
		}
		if now != s.print {
			return viol15("no-mutation", whereOfMutation(after), "%s changed the shared value %s: it was %s and is now %s.", after, s.name, showStr(diffPrints(s.print, now)), showStr(diffPrints(now, s.print)))
		}
	}
	return nil
}

func whereOfMutation(after string) string {
	f := strings.Fields(after)
	return f[len(f)-1]
}

// diffPrints returns the part of a that differs from b (trimmed common affixes).
func diffPrints(a, b string) string {
	i := 0
	for i < len(a) && i < len(b) && a[i] == b[i] {
		i++
	}
	j := 0
	for j < len(a)-i && j < len(b)-i && a[len(a)-1-j] == b[len(b)-1-j] {
		j++
	}
	lo := i - 40
	if lo < 0 {
		lo = 0
	}
	hi := len(a) - j + 40
	if hi > len(a) {
		hi = len(a)
	}
	return a[lo:hi]
}

// ---------------------------------------------------------------- generation

var optionSets15 = [][]string{{}, {"SET"}, {"MULTISET"}, {"SetKeys:id"}, {"MERGE"}, {"SET", "MERGE"}, {"MULTISET", "MERGE"}, {"Precision:0.5"},
	{"MULTISET", "Precision:1"}, {"SET", "Precision:1"}, {"SetKeys:id", "Precision:0.5"}, {"SET", "SetKeys:id"}, {"Precision:1", "MERGE"}}

func genCase15(c *Chooser) C15Case {
	g := genCfg(c)
	g.MaxKids = c.Range(3, 6)
	g.MaxDepth = c.Range(2, 4)
	g.Big = false
	if c.Chance(1, 5) {
		g.UniqueIDs = false // several members of one array may carry the same identity
		g.KeyedArr = true
	}
	docs := lineage(c, g, 1)
	a, b := docs[0], docs[1]
	if c.Chance(1, 6) {
		// B is A with its arrays in another order (equal as sets and multisets):
		// anything that identifies a document by an order-insensitive summary
		// meets two different documents with the same summary
		b = shuffleArrays(c, a, false)
		if c.Chance(1, 2) {
			b = edit(c, g, b)
		}
	}
	// make multi-add / multi-remove list hunks and key removals likely
	if a.K == 'o' && c.Chance(2, 3) {
		a.set("list", &Val{K: 'a', Elems: []*Val{vn(1)}})
		bl := &Val{K: 'a', Elems: []*Val{vn(1)}}
		for i := 0; i < c.Range(1, 4); i++ {
			bl.Elems = append(bl.Elems, vn(float64(2+i)))
		}
		if b.K == 'o' {
			b.set("list", bl)
		}
	}
	if a.K == 'o' && b.K == 'o' && c.Chance(1, 3) {
		// set members that are long strings (hashing of long values)
		long := func(i int) *Val { return vs(strings.Repeat(string(rune('p'+i)), 130+i) + "-long") }
		a.set("longs", &Val{K: 'a', Elems: []*Val{long(0), long(1), long(2)}})
		b.set("longs", &Val{K: 'a', Elems: []*Val{long(3), long(1), long(4), long(5)}})
	}
	if a.K == 'o' && b.K == 'o' && c.Chance(1, 3) {
		// prose: long strings with spaces, which a YAML emitter may fold
		prose := "the quick brown fox jumps over the lazy dog and then keeps running well past the eightieth column of this page"
		a.set("prose", vs(prose))
		b.set("prose", vs(prose+" and on"))
	}
	if a.K == 'o' && b.K == 'o' && c.Chance(1, 20) {
		// a wide object under three levels of objects, a few members changed:
		// where code that treats large containers specially takes its other path
		wide := func(changed map[int]bool) *Val {
			w := &Val{K: 'o'}
			for i := 0; i < 72; i++ {
				v := vn(float64(i))
				if changed[i] {
					v = vs(fmt.Sprintf("changed-%d", i))
				}
				w.set(fmt.Sprintf("k%02d", i), v)
			}
			l3 := &Val{K: 'o'}
			l3.set("z", w)
			l2 := &Val{K: 'o'}
			l2.set("y", l3)
			return l2
		}
		ch := map[int]bool{}
		for i := 0; i < c.Range(2, 6); i++ {
			ch[c.Int(72)] = true
		}
		a.set("wide", wide(nil))
		b.set("wide", wide(ch))
	}
	if a.K == 'o' && b.K == 'o' && c.Chance(1, 8) {
		// a long list of values no other history has used (whatever a process
		// remembers about list elements grows with each of these)
		base := float64(c.Int(1 << 30))
		series := func(change int) *Val {
			l := &Val{K: 'a'}
			for i := 0; i < 300; i++ {
				x := base + float64(i)
				if i == change {
					x = -x - 1
				}
				l.Elems = append(l.Elems, vn(x))
			}
			return l
		}
		a.set("series", series(-1))
		b.set("series", series(c.Int(300)))
	}
	if a.K == 'o' && b.K == 'o' && c.Chance(1, 30) {
		// a large keyed set: most members keep their identity, a few change
		big := func(changed map[int]bool) *Val {
			v := &Val{K: 'a'}
			for i := 0; i < 70; i++ {
				o := &Val{K: 'o'}
				o.set("id", vn(float64(i)))
				o.set("v", vn(float64(i%5)))
				if changed[i] {
					o.set("v", vs("changed"))
					o.set("w", vn(1))
				}
				v.Elems = append(v.Elems, o)
			}
			return v
		}
		ch := map[int]bool{}
		for i := 0; i < c.Range(2, 6); i++ {
			ch[c.Int(70)] = true
		}
		a.set("members", big(nil))
		b.set("members", big(ch))
	}
	if a.K == 'o' && b.K == 'o' && c.Chance(1, 3) {
		// numbers close to one another: under a precision several pairings exist
		a.set("near", &Val{K: 'a', Elems: []*Val{vn(15), vn(10), vn(3)}})
		b.set("near", &Val{K: 'a', Elems: []*Val{vn(10), vn(20), vn(3.5)}})
	}
	if a.K == 'o' && b.K == 'o' && c.Chance(1, 2) {
		a.set("gone", vs("x"))
		a.set("gone2", &Val{K: 'o', Keys: []string{"k"}, Vals: []*Val{vn(1)}})
	}
	cs := C15Case{A: a.JSON(0), B: b.JSON(0)}
	if c.Chance(1, 5) {
		// YAML carriers; sometimes with mapping keys that are not strings and
		// collide once turned into strings (1 and "1", true and "true")
		cs.YAML = true
		if c.Chance(1, 2) {
			for _, d := range []*Val{a, b} {
				for _, n := range containers(d, nil) {
					if n.K != 'o' || !c.Chance(1, 3) {
						continue
					}
					k := []string{"1", "true", "2.5", "~"}[c.Int(4)]
					n.RawKeys = make([]bool, len(n.Keys))
					n.Keys = append(n.Keys, k, k)
					n.Vals = append(n.Vals, vn(float64(c.Int(5))), vs("quoted"))
					n.RawKeys = append(n.RawKeys, true, false)
				}
			}
		}
		cs.A, cs.B = a.YAML(), b.YAML()
	}
	// option sets: a seeded subset, always at least two
	for _, o := range optionSets15 {
		if c.Chance(1, 2) {
			cs.Opts = append(cs.Opts, o)
		}
	}
	if len(cs.Opts) < 2 {
		cs.Opts = [][]string{{}, {"MERGE"}}
	}
	// text sources
	ntext := c.Range(1, 3)
	for i := 0; i < ntext; i++ {
		switch c.Pick(3, 1, 1, 2) {
		case 3:
			// hand-written native diff: merge hunks whose paths overlap
			cs.Texts = append(cs.Texts, TextSrc{Kind: "jd", Text: handWrittenMerge(c)})
		case 0:
			// a multi-key nested merge patch (nulls delete)
			gm := g
			gm.Nulls = true
			m := &Val{K: 'o'}
			for j := 0; j < c.Range(2, 6); j++ {
				m.set(genKey(c, gm), genVal(c, gm, 1))
			}
			cs.Texts = append(cs.Texts, TextSrc{Kind: "merge", Text: m.JSON(0)})
		case 1:
			cs.Texts = append(cs.Texts, TextSrc{Kind: "patch", Derive: "patch"})
		default:
			cs.Texts = append(cs.Texts, TextSrc{Kind: "jd", Derive: "jd"})
		}
	}
	if c.Chance(1, 3) {
		// a diff assembled from two of the above (often a merge diff followed
		// by a strict one)
		n := len(cs.Opts) + len(cs.Texts)
		i, j := c.Int(n), c.Int(n)
		for k, o := range cs.Opts {
			if len(o) > 0 && o[len(o)-1] == "MERGE" && c.Chance(1, 2) {
				i = k
			}
		}
		cs.Texts = append(cs.Texts, TextSrc{Kind: "cat", Cat: [2]int{i, j}})
	}
	nd := len(cs.Opts) + len(cs.Texts)
	ncall := c.Range(1, 24)
	ops := []string{"Diff", "DiffBA", "Equals", "Json", "Yaml", "Render", "RenderColor", "RenderPatch", "RenderMerge", "ElemRender", "ElemRenderColor", "Read", "ReadDoc", "PatchPrivate", "RenderWith", "ElemRenderWith"}
	weights := []int{3, 1, 2, 2, 2, 4, 2, 5, 5, 1, 1, 4, 1, 3, 3, 1}
	for i := 0; i < ncall; i++ {
		op := ops[c.Pick(weights...)]
		call := Call{Op: op, D: c.Int(nd + i/2), N: c.Int(2), O: c.Int(len(cs.Opts)), E: c.Int(4)}
		if len(cs.Texts) > 0 {
			call.T = c.Int(len(cs.Texts))
		}
		if call.D >= nd+8 {
			call.D = c.Int(nd)
		}
		cs.Calls = append(cs.Calls, call)
	}
	cs.Order = MapOrder{Mode: []string{"canonical", "reverse", "rotate", "shuffle", "mixed", "shuffle"}[c.Int(6)], Seed: c.U64()}
	switch c.Int(6) {
	case 0:
		// a loaded machine: time jumps between clock readings
		cs.Clock = simos.ClockPolicy{Mode: "slow", Seed: c.U64()}
	case 1:
		// every deadline is already due when it is set
		cs.Clock = simos.ClockPolicy{Mode: "expired"}
	}
	cs.Sched = c.U64()
	switch c.Int(4) {
	case 0:
		cs.Reorder = 1
	case 1:
		cs.Reorder = c.U64() | 2
	}
	return cs
}

// privateRender produces diff text for the workload from private values; it
// never touches shared state.
func privateRender(a, b, format string) (out string) {
	defer func() {
		if recover() != nil {
			out = ""
		}
	}()
	x, err := jd.ReadJsonString(a)
	if err != nil {
		return ""
	}
	y, err := jd.ReadJsonString(b)
	if err != nil {
		return ""
	}
	d := x.Diff(y)
	if format == "patch" {
		s, err := d.RenderPatch()
		if err != nil {
			return "[]"
		}
		return s
	}
	return d.Render()
}

func init() {
	engines["C15"] = &Engine{
		Prop: "C15",
		Run: func(ch *Chooser, emit func(c any, v *Violation, log []string, info *caseInfo)) {
			cs := genCase15(ch)
			guard(cs)
			v, log, info := checkC15(cs)
			if v != nil {
				stats.clause(v.Clause)
			} else {
				stats.clause("history")
			}
			emit(cs, v, log, info)
		},
		Check: func(raw json.RawMessage) (*Violation, []string, error) {
			var c C15Case
			if err := json.Unmarshal(raw, &c); err != nil {
				return nil, nil, err
			}
			v, log, _ := checkC15(c)
			return v, log, nil
		},
		Shrink: shrink15,
	}
}

func shrink15(raw json.RawMessage) []json.RawMessage {
	var c C15Case
	if err := json.Unmarshal(raw, &c); err != nil {
		return nil
	}
	var out []json.RawMessage
	add := func(d C15Case) {
		b, _ := json.Marshal(d)
		out = append(out, b)
	}
	cp := func() C15Case {
		d := c
		d.Calls = append([]Call(nil), c.Calls...)
		d.Opts = append([][]string(nil), c.Opts...)
		d.Texts = append([]TextSrc(nil), c.Texts...)
		return d
	}
	// shorter histories: drop a suffix, then single calls
	if len(c.Calls) > 1 {
		d := cp()
		d.Calls = d.Calls[:len(d.Calls)/2]
		add(d)
		d = cp()
		d.Calls = d.Calls[:len(d.Calls)-1]
		add(d)
	}
	for i := range c.Calls {
		d := cp()
		d.Calls = append(d.Calls[:i:i], d.Calls[i+1:]...)
		add(d)
	}
	if c.Clock.Mode != "" {
		d := cp()
		d.Clock = simos.ClockPolicy{}
		add(d)
		if c.Clock.Mode != "expired" {
			d = cp()
			d.Clock = simos.ClockPolicy{Mode: "expired"}
			add(d)
		}
	}
	if c.Reorder != 0 {
		d := cp()
		d.Reorder = 0
		add(d)
		if c.Reorder != 1 {
			d = cp()
			d.Reorder = 1
			add(d)
		}
	}
	// simpler map order
	if c.Order.Mode != "canonical" {
		d := cp()
		d.Order = MapOrder{Mode: "canonical"}
		add(d)
	}
	if c.Order.Mode != "canonical" && c.Order.Mode != "reverse" {
		d := cp()
		d.Order = MapOrder{Mode: "reverse", Sites: c.Order.Sites}
		add(d)
	}
	if c.Order.Mode != "canonical" && len(c.Order.Sites) != 1 {
		// restrict the permutation to one source site (sites seen in the last check)
		_, _, _ = checkC15(c)
		for _, s := range append([]string(nil), lastSites15...) {
			d := cp()
			d.Order.Sites = []string{s}
			add(d)
		}
	}
	// fewer option sets / text sources (indices shift: remap calls)
	for i := range c.Opts {
		if len(c.Opts) < 2 {
			break
		}
		d := cp()
		d.Opts = append(d.Opts[:i:i], d.Opts[i+1:]...)
		for j := range d.Calls {
			if d.Calls[j].O > i || d.Calls[j].O >= len(d.Opts) {
				d.Calls[j].O = max(0, d.Calls[j].O-1)
			}
			if d.Calls[j].D > i {
				d.Calls[j].D--
			}
		}
		add(d)
	}
	for i := range c.Texts {
		d := cp()
		d.Texts = append(d.Texts[:i:i], d.Texts[i+1:]...)
		for j := range d.Calls {
			if d.Calls[j].T > i || d.Calls[j].T >= len(d.Texts) {
				d.Calls[j].T = max(0, d.Calls[j].T-1)
			}
			if d.Calls[j].D > len(c.Opts)+i {
				d.Calls[j].D--
			}
		}
		add(d)
	}
	// smaller documents and texts
	for _, t := range shrinkText(c.A, false) {
		d := cp()
		d.A = t
		add(d)
	}
	for _, t := range shrinkText(c.B, false) {
		d := cp()
		d.B = t
		add(d)
	}
	for i, ts := range c.Texts {
		for _, t := range shrinkText(ts.Text, false) {
			d := cp()
			d.Texts[i] = TextSrc{Kind: ts.Kind, Text: t}
			add(d)
		}
	}
	return out
}

// observe lists everything the public API lets a caller see of a diff or a
// document: each observer runs on its own deep copy, under canonical map order.
func observe(x any) string {
	var b strings.Builder
	add := func(name string, f func(c any) string) {
		c := deepCopyAny(x)
		o := guardCall(func() outcome { return outcome{text: f(c)} })
		b.WriteString(name + "=" + o.String() + "\n")
	}
	switch x.(type) {
	case jd.Diff:
		add("Render", func(c any) string { return c.(jd.Diff).Render() })
		add("RenderColor", func(c any) string { return c.(jd.Diff).Render(jd.COLOR) })
		add("RenderPatch", func(c any) string {
			s, err := c.(jd.Diff).RenderPatch()
			return fmt.Sprint(s, err != nil)
		})
		add("RenderMerge", func(c any) string {
			s, err := c.(jd.Diff).RenderMerge()
			return fmt.Sprint(s, err != nil)
		})
		add("shape", func(c any) string {
			var sb strings.Builder
			for _, e := range c.(jd.Diff) {
				fmt.Fprintf(&sb, "%v|%d|%d|%d|%d|%s;", e.Metadata.Merge, len(e.Before), len(e.Remove), len(e.Add), len(e.After), e.Path.JsonNode().Json())
				for _, l := range [][]jd.JsonNode{e.Before, e.Remove, e.Add, e.After} {
					for _, n := range l {
						fmt.Fprintf(&sb, "%T:%s,", n, n.Json())
					}
				}
			}
			return sb.String()
		})
	case jd.JsonNode:
		add("Json", func(c any) string { return c.(jd.JsonNode).Json() })
		add("Yaml", func(c any) string { return c.(jd.JsonNode).Yaml() })
		add("JsonSet", func(c any) string { return c.(jd.JsonNode).Json(jd.SET) })
		add("JsonMultiset", func(c any) string { return c.(jd.JsonNode).Json(jd.MULTISET) })
		add("type", func(c any) string { return fmt.Sprintf("%T", c) })
	default:
		return fingerprint(x)
	}
	return b.String()
}

// handWrittenMerge writes a native diff the way a person assembling merge
// hunks might: a strict hunk first (sometimes), then merge hunks over a small
// set of keys whose paths overlap at any depth (an object is set, then a member
// inside it), deletions, and the same few values again and again.
func handWrittenMerge(c *Chooser) string {
	var sb strings.Builder
	if c.Chance(1, 3) {
		sb.WriteString("@ [\"s\"]\n- 1\n+ 2\n")
	}
	keys := []string{"a", "b", "c"}
	sub := []string{"x", "y", "z"}
	sticky := c.Chance(1, 3) // metadata is inherited by the following hunks
	for j := 0; j < c.Range(2, 6); j++ {
		k := keys[c.Int(3)]
		if !sticky || j == 0 {
			sb.WriteString("^ {\"Merge\":true}\n")
		}
		path := fmt.Sprintf("%q", k)
		for d := 0; d < c.Int(4); d++ {
			path += fmt.Sprintf(",%q", sub[c.Int(3)])
		}
		switch c.Int(7) {
		case 0:
			fmt.Fprintf(&sb, "@ [%s]\n+\n", path)
		case 1:
			fmt.Fprintf(&sb, "@ [%s]\n+ %d\n", path, j)
		case 2:
			fmt.Fprintf(&sb, "@ [%s]\n+ [1,2,{\"z\":%d}]\n", path, j)
		case 3:
			fmt.Fprintf(&sb, "@ [%s]\n+ {}\n", path)
		case 4:
			fmt.Fprintf(&sb, "@ [%s]\n+ []\n", path)
		default:
			val := fmt.Sprintf("%d", j)
			for d := 0; d < c.Range(1, 3); d++ {
				val = fmt.Sprintf("{%q:%s,\"w\":%d}", sub[c.Int(3)], val, d)
			}
			fmt.Fprintf(&sb, "@ [%s]\n+ %s\n", path, val)
		}
	}
	return sb.String()
}
