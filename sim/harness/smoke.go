package main

import "fmt"

func smoke() {
	files := []File{{"a.json", Blob(`{"a":[1,2,3],"b":1}`)}, {"b.json", Blob(`{"a":[1,4,3],"c":2}`)}}
	for _, bin := range []string{"v2", "top"} {
		fs := fsFromFiles(files, nil)
		for _, argv := range [][]string{{"a.json", "b.json"}, {"-f", "patch", "-o", "p", "a.json", "b.json"}, {"-p", "-f=patch", "p", "a.json"}, {"nope", "b.json"}, {"-zz"}, {"-v2=false", "a.json", "b.json"}, {"-version"}} {
			r := runProc(fs, ProcSpec{Bin: bin, Argv: argv}, IOCfg{Sector: 64}, nil)
			fmt.Printf("== %s %v -> code=%d crash=%q\nstdout=%q\nstderr=%q\n", bin, argv, r.Code, r.Crash, r.Stdout, r.Stderr)
		}
	}
}
