package main

import (
	"encoding/json"
	"fmt"
	"runtime/debug"
	"sort"
	"strings"

	jd "github.com/josephburnett/jd/v2"
	"github.com/josephburnett/jd/v2/verif/simos"
)

// ---------------------------------------------------------------- case

// DiskFault is damage done to a file at rest, between two processes.
type DiskFault struct {
	After  int    `json:"after"` // applied after this process index
	Kind   string `json:"kind"`  // bitrot | truncate | torn | zero-sector | dup-append | append-other | stale
	File   string `json:"file"`
	File2  string `json:"file2,omitempty"`
	Params []int  `json:"params,omitempty"`
	Text   string `json:"text,omitempty"` // for kind "overwrite": the new content
}

// C13Case: producers write patch artefacts, storage and transport damage
// them, a consumer (the last process) applies or translates one.
type C13Case struct {
	Sector    int               `json:"sector"`
	FileChunk int               `json:"file_chunk,omitempty"`
	Files     []File            `json:"files"`
	Procs     []ProcSpec        `json:"procs"`
	Disk      []DiskFault       `json:"disk_faults,omitempty"`
	Artefact  string            `json:"artefact"` // file the consumer reads as a patch
	Target    string            `json:"target"`   // document the consumer applies it to
	Skew      []string          `json:"skew,omitempty"`
	Env       [][2]string       `json:"env,omitempty"`
	Clock     simos.ClockPolicy `json:"clock,omitempty"`
	Sched     uint64            `json:"schedule_seed,omitempty"` // which goroutine runs when, if the tree has any
}

func applyDiskFault(fs, before *simos.FS, f DiskFault, sector int) bool {
	cur, ok := fs.Files[f.File]
	if !ok {
		return false
	}
	old := before.Files[f.File]
	switch f.Kind {
	case "overwrite":
		fs.Files[f.File] = []byte(f.Text)
	case "deep-nesting":
		// millions of opening brackets (a generator gone wrong, a hostile
		// sender): Text is what is repeated, Params[0] how often, Params[1]
		// says whether it arrives as the value of a native-diff "+" line
		n := 1
		if len(f.Params) > 0 {
			n = f.Params[0]
		}
		text := strings.Repeat(f.Text, n)
		if len(f.Params) > 1 && f.Params[1] == 1 {
			text = "@ []\n+ " + text + "\n"
		}
		fs.Files[f.File] = []byte(text)
	case "bitrot":
		if len(cur) == 0 {
			return false
		}
		n := append([]byte(nil), cur...)
		for _, p := range f.Params {
			bit := p % (len(n) * 8)
			n[bit/8] ^= 1 << (bit % 8)
		}
		fs.Files[f.File] = n
	case "truncate":
		if len(f.Params) == 0 || len(cur) == 0 {
			return false
		}
		n := f.Params[0] % len(cur)
		if len(f.Params) > 1 && f.Params[1] < len(cur) {
			n = f.Params[1] // only the first few bytes made it
		}
		fs.Files[f.File] = append([]byte(nil), cur[:n]...)
	case "torn":
		// power loss before the data was synced: the listed sectors hold the
		// new content, the others what was there before (zeros if nothing)
		isNew := map[int]bool{}
		for _, p := range f.Params {
			isNew[p] = true
		}
		n := make([]byte, len(cur))
		for i := 0; i*sector < len(cur); i++ {
			lo, hi := i*sector, (i+1)*sector
			if hi > len(cur) {
				hi = len(cur)
			}
			if isNew[i] {
				copy(n[lo:hi], cur[lo:hi])
			} else if lo < len(old) {
				copy(n[lo:hi], old[lo:min(hi, len(old))])
			}
		}
		fs.Files[f.File] = n
	case "zero-sector":
		if len(f.Params) == 0 || len(cur) == 0 {
			return false
		}
		n := append([]byte(nil), cur...)
		i := f.Params[0] % ((len(cur) + sector - 1) / sector)
		for j := i * sector; j < (i+1)*sector && j < len(n); j++ {
			n[j] = 0
		}
		fs.Files[f.File] = n
	case "bom":
		// an editor or a text-mode tool put a UTF-8 byte order mark in front
		fs.Files[f.File] = append([]byte{0xEF, 0xBB, 0xBF}, cur...)
	case "crlf":
		// a text-mode transfer rewrote the line endings
		fs.Files[f.File] = []byte(strings.ReplaceAll(string(cur), "\n", "\r\n"))
	case "blank-line", "line-drop", "line-dup", "line-swap":
		// a record-oriented carrier inserted a separator, lost, duplicated or
		// reordered a line
		lines := strings.SplitAfter(string(cur), "\n")
		if len(lines) == 0 || len(f.Params) == 0 {
			return false
		}
		i := f.Params[0] % len(lines)
		switch f.Kind {
		case "blank-line":
			nl := "\n"
			if strings.Contains(string(cur), "\r\n") {
				nl = "\r\n"
			}
			lines = append(lines[:i:i], append([]string{nl}, lines[i:]...)...)
		case "line-drop":
			lines = append(lines[:i:i], lines[i+1:]...)
		case "line-dup":
			lines = append(lines[:i+1:i+1], lines[i:]...)
		default:
			j := (i + 1) % len(lines)
			lines[i], lines[j] = lines[j], lines[i]
		}
		fs.Files[f.File] = []byte(strings.Join(lines, ""))
	case "dup-append":
		fs.Files[f.File] = append(append([]byte(nil), cur...), cur...)
	case "append-other":
		o, ok := fs.Files[f.File2]
		if !ok {
			return false
		}
		fs.Files[f.File] = append(append([]byte(nil), cur...), o...)
	case "stale":
		o, ok := fs.Files[f.File2]
		if !ok {
			return false
		}
		fs.Files[f.File] = append([]byte(nil), o...)
	default:
		return false
	}
	return true
}

// ---------------------------------------------------------------- oracle

func viol13(clause, where, format string, a ...any) *Violation {
	return &Violation{Prop: "C13", Clause: clause, Where: where, Detail: fmt.Sprintf(format, a...)}
}

// frameFunc reduces "jd.jsonList.patch v2/list.go:378" to function and file.
func frameFunc(frame string) string {
	if i := strings.LastIndexByte(frame, ':'); i > 0 {
		frame = frame[:i]
	}
	return strings.ReplaceAll(frame, " ", "@")
}

type libResult struct {
	accepted map[string]bool
}

// libDirect feeds the artefact bytes and the target to the library directly:
// every reader, and Patch with every successfully read diff.
// libSched seeds the goroutine scheduler for the direct library calls of the
// case being checked.
var libSched uint64

func libDirect(artefact, target []byte) (*Violation, libResult) {
	lr := libResult{accepted: map[string]bool{}}
	type reader struct {
		name string
		f    func(string) (jd.Diff, error)
	}
	ncall := uint64(0)
	call := func(name string, f func()) (v *Violation) {
		guarded := func() {
			defer func() {
				if r := recover(); r != nil {
					fr := simos.FirstFrame(string(debug.Stack()))
					v = viol13("lib-panic", frameFunc(fr), "%s panicked: %v (at %s); artefact=%s target=%s", name, r, fr, show(artefact), show(target))
				}
			}()
			f()
		}
		stats.LibCalls++
		ncall++
		if simos.TreeHasGoroutines && simos.T != nil {
			// a library that starts goroutines: the call runs under the
			// scheduler, from the first go statement on (most calls have none)
			simos.ArmTrip(true)
			guarded()
			trip := simos.Tripped()
			simos.ArmTrip(false)
			if !trip {
				return v
			}
			v = nil
			r := simos.RunScheduled(mix(libSched, ncall), guarded)
			harvestSched()
			switch {
			case v != nil:
			case r.Crash != nil:
				fr := simos.FirstFrame(r.Crash.Stack)
				v = viol13("lib-panic", frameFunc(fr), "%s: a goroutine it started panicked: %s (at %s); no caller can recover that: artefact=%s target=%s", name, r.Crash.Value, fr, show(artefact), show(target))
			case r.Deadlock:
				v = viol13("lib-deadlock", name, "%s never returns: every goroutine is blocked (last releases: %s); artefact=%s target=%s", name, strings.Join(lastN(r.Trace, 6), " "), show(artefact), show(target))
			}
			return v
		}
		guarded()
		return v
	}
	var docs [2]jd.JsonNode // the target read as JSON and as YAML
	for ri, rd := range []struct {
		name string
		f    func(string) (jd.JsonNode, error)
	}{{"ReadJsonString", jd.ReadJsonString}, {"ReadYamlString", jd.ReadYamlString}} {
		for ti, text := range [][]byte{target, artefact} {
			ri, ti, rd, text := ri, ti, rd, text
			if v := call(rd.name, func() {
				n, err := rd.f(string(text))
				if err == nil && n == nil {
					panic("returned (nil, nil)")
				}
				if err == nil && ti == 0 {
					docs[ri] = n
				}
			}); v != nil {
				return v, lr
			}
		}
	}
	for _, rd := range []reader{{"ReadDiffString", jd.ReadDiffString}, {"ReadPatchString", jd.ReadPatchString}, {"ReadMergeString", jd.ReadMergeString}} {
		var d jd.Diff
		var err error
		rd := rd
		if v := call(rd.name, func() { d, err = rd.f(string(artefact)) }); v != nil {
			return v, lr
		}
		// and once more: a reader that has failed (or succeeded) once must
		// still terminate, with the same verdict, when called again
		var err2 error
		if v := call(rd.name+" (second call)", func() { _, err2 = rd.f(string(artefact)) }); v != nil {
			return v, lr
		}
		if (err == nil) != (err2 == nil) {
			return viol13("lib-verdict-changes", rd.name, "%s accepted=%v the first time and accepted=%v the second time on the same text; artefact=%s", rd.name, err == nil, err2 == nil, show(artefact)), lr
		}
		if err != nil {
			continue
		}
		lr.accepted[rd.name] = true
		for i := range docs {
			if docs[i] == nil {
				continue
			}
			// a fresh target per application: Patch may edit its receiver
			var fresh jd.JsonNode
			if i == 0 {
				fresh, _ = jd.ReadJsonString(string(target))
			} else {
				fresh, _ = jd.ReadYamlString(string(target))
			}
			if fresh == nil {
				continue
			}
			if v := call("Patch after "+rd.name, func() {
				n, err := fresh.Patch(deepCopyAny(d).(jd.Diff))
				if err == nil && n == nil {
					panic("returned (nil, nil)")
				}
				if err == nil {
					_ = n.Json()
				}
			}); v != nil {
				return v, lr
			}
		}
		// rendering a successfully read diff is what `jd -t` does
		for _, rn := range []string{"Render", "RenderPatch", "RenderMerge"} {
			rn := rn
			if v := call(rn+" after "+rd.name, func() {
				c := deepCopyAny(d).(jd.Diff)
				switch rn {
				case "Render":
					_ = c.Render()
				case "RenderPatch":
					_, _ = c.RenderPatch()
				default:
					_, _ = c.RenderMerge()
				}
			}); v != nil {
				return v, lr
			}
		}
	}
	return nil, lr
}

// firedKind reports whether a fault of this kind fired in the process.
func firedKind(res ProcResult, kind string) bool {
	for _, f := range res.Fired {
		if f.Kind == kind {
			return true
		}
	}
	return false
}

func checkProc13(i int, p ProcSpec, res ProcResult) *Violation {
	f := parseArgv(p.Argv)
	wh := where14(p, Expect{})
	if res.Crash != "" {
		return viol13("cli-panic", frameFunc(res.CrashAt), "`jd %s` panicked: %s (at %s); a real process would print a Go stack trace and exit 2", strings.Join(p.Argv, " "), res.Crash, res.CrashAt)
	}
	if res.Runaway {
		return viol13("no-termination", wh, "`jd %s` was still making I/O calls after %d of them: it does not terminate", strings.Join(p.Argv, " "), len(res.Steps))
	}
	if res.Killed {
		return nil
	}
	okCodes := []int{0, 1, 2}
	if f.patch || f.translate != "" {
		okCodes = []int{0, 2}
	}
	good := false
	for _, c := range okCodes {
		if res.Code == c {
			good = true
		}
	}
	if !good {
		return viol13("status", wh, "`jd %s` exited with status %d; an error must be status 2", strings.Join(p.Argv, " "), res.Code)
	}
	if res.Code == 2 {
		if len(res.Stderr) == 0 && len(res.Stdout) == 0 && !firedKind(res, simos.FStderrEIO) {
			return viol13("silent-error", wh, "`jd %s` exited with status 2 and no message", strings.Join(p.Argv, " "))
		}
		if strings.Contains(string(res.Stderr), "goroutine ") || strings.Contains(string(res.Stderr), "panic:") {
			return viol13("stack-trace", wh, "`jd %s` printed a stack trace: %s", strings.Join(p.Argv, " "), show(res.Stderr))
		}
	}
	return nil
}

func checkC13(c C13Case) (*Violation, []string, *caseInfo) {
	info := &caseInfo{}
	fs := fsFromFiles(c.Files, nil)
	var log []string
	var prev []byte
	var sig strings.Builder
	firedAny := false
	for i, p := range c.Procs {
		before := fs.Clone()
		last := i == len(c.Procs)-1
		var artefact, target []byte
		if last {
			artefact = append([]byte(nil), fs.Files[c.Artefact]...)
			target = append([]byte(nil), fs.Files[c.Target]...)
		}
		var want Expect
		if last && len(p.Faults) == 0 {
			// what the library says about these very inputs, through the
			// reference model of the CLI: if it returns an error, the process
			// must report it with status 2
			want = cliModel(p.Bin, p.Arg0, p.Argv, fs, stdinBytes(fs, p, prev))
		}
		res := runProc(fs, p, IOCfg{c.Sector, c.FileChunk, false, c.Env, c.Clock, c.Sched}, prev)
		log = append(log, eventLog(i, res)...)
		prev = res.Stdout
		info.Steps += len(res.Steps)
		if last && want.Defined && want.Status == 2 && res.Crash == "" && !res.Killed && res.Code != 2 &&
			(strings.HasPrefix(want.Why, "patch error") || strings.HasPrefix(want.Why, "translate error") || strings.HasPrefix(want.Why, "diff error")) {
			return viol13("error-not-reported", where14(p, Expect{}), "`jd %s` exited with status %d although the library rejects these inputs (%s); malformed or mismatched input must end with status 2 and a message; stdout=%s", strings.Join(p.Argv, " "), res.Code, want.Why, show(res.Stdout)), log, info
		}
		if v := checkProc13(i, p, res); v != nil {
			if last {
				// attribute: does the library alone panic on the same bytes?
				libSched = c.Sched
				if lv, _ := libDirect(artefact, target); lv != nil {
					v.Detail += " | the library called directly panics too: " + lv.Detail
				} else if v.Clause == "cli-panic" {
					v.Detail += " | the library called directly on the same artefact and target does not panic"
				}
			}
			return v, log, info
		}
		fmt.Fprintf(&sig, "%s", where14(p, Expect{}))
		for _, f := range res.Fired {
			fmt.Fprintf(&sig, "!%s", f.Kind)
			firedAny = true
		}
		fmt.Fprintf(&sig, "=%d|", res.Code)
		if last {
			libSched = c.Sched
			lv, lr := libDirect(artefact, target)
			if lv != nil {
				return lv, log, info
			}
			var acc []string
			for k := range lr.accepted {
				acc = append(acc, k)
			}
			sort.Strings(acc)
			fmt.Fprintf(&sig, "acc=%s|", strings.Join(acc, ","))
			if len(acc) > 0 && res.Code == 0 && (len(c.Disk) > 0 || firedAny) {
				stats.probe("damaged-artefact-accepted")
			}
			if res.Code == 2 {
				stats.probe("consumer-rejected-with-status-2")
			}
			if want.Defined && want.Status == 2 && res.Code == 2 {
				stats.probe("library-error-reported-as-status-2")
			}
			for _, sk := range c.Skew {
				if strings.HasSuffix(sk, "-target") && res.Code == 0 {
					stats.probe("patch-accepted-on-a-stale-or-foreign-target")
				}
			}
			for _, df := range c.Disk {
				if df.Kind == "overwrite" && len(acc) > 0 {
					stats.probe("operator-written-artefact-read")
				}
			}
			if fl := parseArgv(p.Argv); !fl.v2 {
				stats.probe("consumer-ran-the-v1-library")
				if res.Code == 0 && (fl.patch || fl.translate != "") {
					stats.probe("v1-consumer-accepted-the-artefact")
				}
				for _, df := range c.Disk {
					if df.Kind == "overwrite" && (strings.HasPrefix(df.Text, "@") || strings.HasPrefix(df.Text, "^")) {
						stats.probe("v1-consumer-met-an-operator-written-native-diff")
					}
				}
			}
			if len(artefact) > 0 {
				info.Nontrivial = firedAny || len(c.Disk) > 0 || len(c.Skew) > 0
			}
		}
		for _, df := range c.Disk {
			if df.After == i {
				if applyDiskFault(fs, before, df, c.Sector) {
					stats.fired("disk-" + df.Kind)
					fmt.Fprintf(&sig, "disk:%s|", df.Kind)
					log = append(log, fmt.Sprintf("disk fault after p%d: %s on %s -> %x", i, df.Kind, df.File, fnv64(fs.Files[df.File])))
				}
			}
		}
	}
	for _, s := range c.Skew {
		stats.fired("skew-" + s)
		fmt.Fprintf(&sig, "skew:%s|", s)
	}
	info.Sig = sig.String()
	return nil, log, info
}

// ---------------------------------------------------------------- generation

// genLarge13 draws a case around a large target: hundreds of members, where
// code that treats big inputs specially (chunking, worker pools, caches)
// takes its other path. Two shapes: a keyed array with one identity occurring
// twice, far apart, patched through a set-keys path; and a long YAML sequence
// with a few elements the library cannot represent, scattered.
func genLarge13(c *Chooser) C13Case {
	cs := C13Case{Sector: []int{64, 512}[c.Int(2)], Artefact: "p", Skew: []string{"large-target"}}
	bin := []string{"v2", "top"}[c.Int(2)]
	if c.Chance(1, 2) {
		n := c.Range(130, 600)
		x := c.Int(n / 3)
		dup := n/2 + c.Int(n/2)
		arr := &Val{K: 'a'}
		for i := 0; i < n; i++ {
			id := i
			if i == dup {
				id = x
			}
			o := &Val{K: 'o'}
			o.set("id", vn(float64(id)))
			o.set("v", vn(float64(i%7)))
			arr.Elems = append(arr.Elems, o)
		}
		doc, path := arr, fmt.Sprintf(`[{"id":%d},"v"]`, x)
		if c.Chance(1, 2) {
			doc = &Val{K: 'o'}
			doc.set("items", arr)
			path = fmt.Sprintf(`["items",{"id":%d},"v"]`, x)
		}
		old := x % 7
		if c.Chance(1, 4) {
			old = 9 // the diff expects a value that is not there
		}
		cs.Files = []File{{"big.json", Blob(doc.JSON(0))}, {"p", Blob(fmt.Sprintf("@ %s\n- %d\n+ 99\n", path, old))}}
		cs.Target = "big.json"
		fl := []flagSpec{{"setkeys", "id", true, false}, {name: "p"}}
		if c.Chance(1, 4) {
			fl = []flagSpec{{name: "set"}, {name: "p"}}
		}
		cs.Procs = []ProcSpec{{Bin: bin, Argv: renderArgv(c, fl, []string{"p", "big.json"})}}
	} else {
		n := c.Range(260, 900)
		bad := map[int]string{}
		// what YAML accepts and jd's document model does not (keys that are
		// not strings, numbers that are not finite), and one YAML itself refuses
		kinds := []string{"{1: x}", "{true: y}", ".nan", "-.inf", "{2.5: z}", "{1: x}", "{[a, b]: c}"}
		for i := 0; i < c.Range(1, 4); i++ {
			bad[c.Int(n)] = kinds[c.Int(len(kinds))]
		}
		var sb strings.Builder
		for i := 0; i < n; i++ {
			if b, ok := bad[i]; ok {
				sb.WriteString("- " + b + "\n")
			} else {
				fmt.Fprintf(&sb, "- %d\n", i%11)
			}
		}
		cs.Files = []File{{"big.yaml", Blob(sb.String())}, {"small.yaml", Blob("- 1\n- 2\n")}, {"p", Blob("@ [0]\n- 0\n+ 5\n")}}
		cs.Target = "big.yaml"
		if c.Chance(1, 2) {
			cs.Procs = []ProcSpec{{Bin: bin, Argv: renderArgv(c, []flagSpec{{name: "yaml"}, {name: "p"}}, []string{"p", "big.yaml"})}}
		} else {
			cs.Procs = []ProcSpec{{Bin: bin, Argv: renderArgv(c, []flagSpec{{name: "yaml"}}, []string{"big.yaml", "small.yaml"})}}
		}
	}
	cs.Sched = c.U64()
	return cs
}

func genCase13(c *Chooser) C13Case {
	if c.Chance(1, 40) {
		return genLarge13(c)
	}
	g := genCfg(c)
	g.Big = c.Chance(1, 60)
	iv := genInvocation(c)
	if iv.arrays == "setkeys" {
		g.KeyedArr = true
	}
	k := c.Range(2, 4)
	if iv.yaml && c.Chance(1, 10) {
		g.YAMLFloats = true
	}
	if iv.yaml && c.Chance(1, 8) {
		g.YAMLKeys = true
	}
	docs := lineage(c, g, k)
	cs := C13Case{Sector: []int{1, 8, 64, 512}[c.Int(4)], FileChunk: []int{0, 0, 1, 64}[c.Int(4)], Artefact: "p"}
	ext := ".json"
	if iv.yaml {
		ext = ".yaml"
	}
	name := func(i int) string { return fmt.Sprintf("v%d%s", i, ext) }
	for i, d := range docs {
		cs.Files = append(cs.Files, File{name(i), Blob(docText(c, d, iv.yaml))})
	}
	branch := edit(c, g, edit(c, g, docs[0]))
	cs.Files = append(cs.Files, File{"branch" + ext, Blob(docText(c, branch, iv.yaml))})
	cs.Files = append(cs.Files, File{"empty" + ext, Blob("")}, File{"scalar" + ext, Blob("7")})
	// a tiny document (the same text is JSON and YAML): what a hand-written
	// hunk with an index or a context line too many meets
	cs.Files = append(cs.Files, File{"tiny" + ext, Blob([]string{"[]", "[1]", "[1,2,3]", "{}", "{\"a\":[1]}", "[[1],2]", "[{\"id\":1}]", "\"x\"", "[" + strings.Repeat("[", 40) + strings.Repeat("]", 40) + ",1]", "{\"a\":[" + strings.Repeat("[", 40) + strings.Repeat("]", 40) + "]}"}[c.Int(10)])})
	// some artefact that was there before (what a torn overwrite mixes with)
	if c.Chance(1, 2) {
		cs.Files = append(cs.Files, File{"p", Blob(privateRender(docs[0].JSON(0), branch.JSON(0), "jd"))})
	}
	i := c.Int(k)
	producer := ProcSpec{Bin: iv.bin, Argv: renderArgv(c, append(iv.flags(), flagSpec{"o", "p", true, false}), []string{name(i), name(i + 1)})}
	cs.Procs = append(cs.Procs, producer)
	j := c.Int(k)
	if c.Chance(1, 2) {
		cs.Procs = append(cs.Procs, ProcSpec{Bin: iv.bin, Argv: renderArgv(c, append(iv.flags(), flagSpec{"o", "p2", true, false}), []string{name(j), name(j + 1)})})
	}
	np := len(cs.Procs)
	// faults inside the producer: learn its steps from a fault-free dry run
	if c.Chance(3, 10) {
		dry := runProc(fsFromFiles(cs.Files, nil), producer, IOCfg{cs.Sector, cs.FileChunk, false, nil, cs.Clock, cs.Sched}, nil)
		var cand []simos.Fault
		for _, st := range dry.Steps {
			for _, kind := range simos.Applicable(st.Kind) {
				switch kind {
				case simos.FWriteENOSPC, simos.FWriteEIO, simos.FCloseEIO, simos.FKill:
					cand = append(cand, simos.Fault{Step: st.N, Kind: kind})
				}
			}
		}
		if len(cand) > 0 {
			cs.Procs[0].Faults = []simos.Fault{cand[c.Int(len(cand))]}
		}
	}
	// damage at rest
	if c.Chance(6, 10) {
		n := 1 + c.Pick(80, 15, 5)
		for x := 0; x < n; x++ {
			df := DiskFault{After: np - 1, File: "p"}
			if c.Chance(1, 8) {
				df.File = "" // filled in below: the target document is damaged instead
			}
			switch c.Pick(3, 3, 3, 1, 2, 1, 2, 2, 2, 1, 1, 1, 2) {
			case 12:
				df.Kind = "bom"
			case 7:
				df.Kind = "crlf"
			case 8:
				df.Kind = "blank-line"
				df.Params = []int{c.Int(1 << 16)}
			case 9:
				df.Kind = "line-drop"
				df.Params = []int{c.Int(1 << 16)}
			case 10:
				df.Kind = "line-dup"
				df.Params = []int{c.Int(1 << 16)}
			case 11:
				df.Kind = "line-swap"
				df.Params = []int{c.Int(1 << 16)}
			case 0:
				df.Kind = "bitrot"
				for y := 0; y < c.Range(1, 3); y++ {
					df.Params = append(df.Params, c.Int(1<<16))
				}
			case 1:
				df.Kind = "truncate"
				df.Params = []int{c.Int(1 << 16)}
				if c.Chance(1, 4) {
					df.Params = append(df.Params, c.Int(4))
				}
			case 2:
				df.Kind = "torn"
				for y := 0; y < 64; y++ {
					if c.Chance(1, 2) {
						df.Params = append(df.Params, y)
					}
				}
			case 3:
				df.Kind = "zero-sector"
				df.Params = []int{c.Int(64)}
			case 4:
				df.Kind = "dup-append"
			case 5:
				df.Kind, df.File2 = "append-other", "p2"
			default:
				df.Kind, df.File2 = "stale", "p2"
			}
			cs.Disk = append(cs.Disk, df)
		}
	}
	// sometimes the artefact is not what a producer wrote but what an operator
	// wrote or edited by hand (the native format is meant to be editable):
	// structurally valid hunks with arbitrary paths, context and metadata
	operatorNative := false
	if c.Chance(1, 2500) {
		// the artefact (or, below, the target when File is left empty) is
		// nested a few million levels deep
		df := DiskFault{After: np - 1, Kind: "deep-nesting", File: "p", Text: []string{"[", "{\"a\":", "[{\"a\":"}[c.Int(3)], Params: []int{c.Range(1, 4) * 1000000, c.Int(2)}}
		if c.Chance(1, 3) {
			df.File, df.Params[1] = "", 0
		}
		cs.Disk = append(cs.Disk, df)
	} else if c.Chance(1, 6) {
		text := handWritten(c)
		switch c.Int(4) {
		case 0, 1:
			text = handWrittenMerge(c)
		case 2:
			text = handWrittenPatch(c)
		default:
			operatorNative = true
		}
		cs.Disk = append(cs.Disk, DiskFault{After: np - 1, Kind: "overwrite", File: "p", Text: text})
	}
	// consumer
	civ := iv
	if c.Chance(3, 10) {
		switch c.Int(4) {
		case 0:
			civ.format = []string{"jd", "patch", "merge"}[c.Int(3)]
			if civ.format != iv.format {
				cs.Skew = append(cs.Skew, "format")
			}
		case 1:
			civ.arrays = []string{"list", "set", "mset", "setkeys"}[c.Int(4)]
			if civ.arrays != iv.arrays {
				cs.Skew = append(cs.Skew, "flag")
			}
		case 2:
			civ.yaml = !iv.yaml
			cs.Skew = append(cs.Skew, "carrier")
		default:
			if iv.v1 {
				civ.v1 = false
			} else if c.Chance(1, 2) {
				civ.bin = []string{"v2", "top"}[c.Int(2)]
			}
			if iv.v1 != civ.v1 {
				cs.Skew = append(cs.Skew, "version")
			}
		}
	}
	// The consumer mostly runs the v2 library (what C13's anchors name). The
	// CLI half of C13 speaks about every jd process, though, and the top-level
	// binary with -v2=false is one: a share of the consumers runs the v1
	// library, on v1-dialect and on v2-dialect artefacts.
	if civ.v1 && c.Chance(1, 2) {
		civ.v1 = false
		if iv.v1 {
			cs.Skew = append(cs.Skew, "version")
		}
	} else if !civ.v1 && (c.Chance(1, 12) || operatorNative && c.Chance(1, 4)) {
		civ.v1, civ.bin = true, "top"
		if !iv.v1 {
			cs.Skew = append(cs.Skew, "version")
		}
	}
	switch c.Pick(4, 3, 1, 1, 1) {
	case 0:
		cs.Target = name(i)
	case 1:
		t := c.Int(k + 1)
		cs.Target = name(t)
		if t < i {
			cs.Skew = append(cs.Skew, "stale-target")
		} else if t > i {
			cs.Skew = append(cs.Skew, "ahead-target")
		}
	case 2:
		cs.Target = "branch" + ext
		cs.Skew = append(cs.Skew, "branch-target")
	case 3:
		cs.Target = "empty" + ext
		cs.Skew = append(cs.Skew, "branch-target")
	default:
		cs.Target = "scalar" + ext
		cs.Skew = append(cs.Skew, "branch-target")
	}
	for _, df := range cs.Disk {
		if df.Kind == "overwrite" && c.Chance(1, 2) {
			cs.Target = "tiny" + ext
			cs.Skew = append(cs.Skew, "branch-target")
			if deep := strings.Repeat("[", 40); strings.Contains(df.Text, deep) {
				// hunks about a deeply nested value meet a document holding it
				for x := range cs.Files {
					if cs.Files[x].Name == cs.Target {
						cs.Files[x].Data = Blob([]string{"[" + deep + strings.Repeat("]", 40) + ",1]", "{\"a\":[" + deep + strings.Repeat("]", 40) + "]}", "[[" + deep + strings.Repeat("]", 40) + "],2]"}[c.Int(3)])
					}
				}
			}
		}
	}
	for x := range cs.Disk {
		if cs.Disk[x].File == "" {
			cs.Disk[x].File = cs.Target
		}
	}
	var consumer ProcSpec
	if c.Chance(1, 7) {
		// the consumer diffs documents (one of which may be damaged, or is the
		// artefact itself mistaken for a document), plainly or as git's driver
		other := name(c.Int(k + 1))
		if c.Chance(1, 4) {
			other = "p"
		}
		if c.Chance(1, 2) {
			consumer = ProcSpec{Bin: civ.bin, Argv: renderArgv(c, civ.flags(), []string{cs.Target, other})}
		} else {
			civ.v1 = false
			consumer = ProcSpec{Bin: civ.bin, Argv: renderArgv(c, append(civ.flags(), flagSpec{name: "git-diff-driver"}), []string{"path", cs.Target, "abc", "100644", other, "def", "100644"})}
		}
	} else if c.Chance(4, 5) {
		fl := append(civ.flags(), flagSpec{name: "p"})
		if c.Chance(1, 4) {
			fl = append(fl, flagSpec{"o", []string{"result", "result", "result", "nodir/result", "v0.json/result"}[c.Int(5)], true, false})
		}
		if c.Chance(1, 2) {
			consumer = ProcSpec{Bin: civ.bin, Argv: renderArgv(c, fl, []string{"p", cs.Target})}
		} else {
			plan, ewd := genPlan(c)
			consumer = ProcSpec{Bin: civ.bin, Argv: renderArgv(c, fl, []string{"p"}), Stdin: &StdinSpec{From: "file:" + cs.Target, Plan: plan, EOFWithData: ewd}}
		}
	} else {
		t := []string{"jd2patch", "patch2jd", "jd2merge", "merge2jd", "json2yaml", "yaml2json", "jd2json", "patch2yaml", "merge2json", "jd2jd"}[c.Int(10)]
		tf := []flagSpec{{"t", t, true, false}}
		if c.Chance(1, 4) {
			tf = append(tf, flagSpec{"o", "result", true, false})
		}
		if c.Chance(1, 3) {
			// the artefact arrives on stdin
			plan, ewd := genPlan(c)
			consumer = ProcSpec{Bin: civ.bin, Argv: renderArgv(c, tf, nil), Stdin: &StdinSpec{From: "file:p", Plan: plan, EOFWithData: ewd}}
		} else {
			consumer = ProcSpec{Bin: civ.bin, Argv: renderArgv(c, tf, []string{"p"})}
		}
	}
	// faults on the consumer's stdin
	if consumer.Stdin != nil && c.Chance(1, 5) {
		kind := []string{simos.FStdinEIO, simos.FStdinEOF}[c.Int(2)]
		// stdin reads start after the artefact was read: steps 1..4 are stdin reads
		consumer.Faults = []simos.Fault{{Step: 1 + c.Int(3), Kind: kind}}
	}
	// or a fault anywhere in the consumer: a seeded step and any fault kind
	// (one that does not apply to that step simply does not fire)
	if len(consumer.Faults) == 0 && c.Chance(1, 6) {
		kinds := []string{simos.FReadEACCES, simos.FReadENOENT, simos.FReadEIO, simos.FOpenWEACCES, simos.FOpenWENOENT, simos.FOpenWENOSPC, simos.FWriteENOSPC, simos.FWriteEIO, simos.FCloseEIO, simos.FKill, simos.FStdoutENOSPC, simos.FStdoutEIO, simos.FStderrEIO}
		consumer.Faults = []simos.Fault{{Step: c.Int(8), Kind: kinds[c.Int(len(kinds))], Param: c.Int(40)}}
	}
	for _, df := range cs.Disk {
		if df.Kind == "deep-nesting" {
			// megabytes of input: delivered in large pieces (a byte at a time
			// they would be millions of I/O steps, beyond the step limit that
			// stands for "does not terminate")
			cs.FileChunk = 0
			if consumer.Stdin != nil {
				consumer.Stdin.Plan, consumer.Stdin.EOFWithData = nil, false
			}
			consumer.Faults = nil
		}
	}
	cs.Procs = append(cs.Procs, consumer)
	if c.Chance(1, 5) {
		cs.Env = genEnv(c)
	}
	switch c.Int(6) {
	case 0:
		// a loaded machine: time jumps between clock readings
		cs.Clock = simos.ClockPolicy{Mode: "slow", Seed: c.U64()}
	case 1:
		// every deadline is already due when it is set
		cs.Clock = simos.ClockPolicy{Mode: "expired"}
	}
	cs.Sched = c.U64()
	sort.Strings(cs.Skew)
	return cs
}

func init() {
	engines["C13"] = &Engine{
		Prop: "C13",
		Run: func(ch *Chooser, emit func(c any, v *Violation, log []string, info *caseInfo)) {
			cs := genCase13(ch)
			guard(cs)
			v, log, info := checkC13(cs)
			stats.clause("producer-damage-consumer")
			emit(cs, v, log, info)
		},
		Check: func(raw json.RawMessage) (*Violation, []string, error) {
			var c C13Case
			if err := json.Unmarshal(raw, &c); err != nil {
				return nil, nil, err
			}
			v, log, _ := checkC13(c)
			return v, log, nil
		},
		Shrink: shrink13,
	}
}

func shrink13(raw json.RawMessage) []json.RawMessage {
	var c C13Case
	if err := json.Unmarshal(raw, &c); err != nil {
		return nil
	}
	var out []json.RawMessage
	add := func(d C13Case) {
		b, _ := json.Marshal(d)
		out = append(out, b)
	}
	cp := func() C13Case {
		d := c
		d.Files = append([]File(nil), c.Files...)
		d.Procs = append([]ProcSpec(nil), c.Procs...)
		d.Disk = append([]DiskFault(nil), c.Disk...)
		d.Skew = nil
		return d
	}
	if c.Clock.Mode != "" {
		d := cp()
		d.Clock = simos.ClockPolicy{}
		add(d)
	}
	// freeze: replace producers by the artefact bytes they (and the faults) left
	// behind, so that only the consumer remains
	if len(c.Procs) > 1 {
		fs := fsFromFiles(c.Files, nil)
		var prev []byte
		for i, p := range c.Procs[:len(c.Procs)-1] {
			before := fs.Clone()
			res := runProc(fs, p, IOCfg{c.Sector, c.FileChunk, false, c.Env, c.Clock, c.Sched}, prev)
			prev = res.Stdout
			for _, df := range c.Disk {
				if df.After == i {
					applyDiskFault(fs, before, df, c.Sector)
				}
			}
		}
		d := cp()
		d.Files = nil
		for _, n := range fs.Names() {
			d.Files = append(d.Files, File{n, Blob(fs.Files[n])})
		}
		d.Procs = []ProcSpec{c.Procs[len(c.Procs)-1]}
		d.Disk = nil
		add(d)
	}
	for i := range c.Disk {
		d := cp()
		d.Disk = append(d.Disk[:i:i], d.Disk[i+1:]...)
		add(d)
	}
	for i, p := range c.Procs {
		if len(p.Faults) > 0 {
			d := cp()
			q := p
			q.Faults = nil
			d.Procs[i] = q
			add(d)
		}
		if p.Stdin != nil && (len(p.Stdin.Plan) > 0 || p.Stdin.EOFWithData) {
			d := cp()
			q := p
			st := *p.Stdin
			st.Plan, st.EOFWithData = nil, false
			q.Stdin = &st
			d.Procs[i] = q
			add(d)
		}
		for j := 0; j < len(p.Argv); j++ {
			if !strings.HasPrefix(p.Argv[j], "-") {
				continue
			}
			for _, w := range []int{1, 2} {
				if j+w > len(p.Argv) {
					continue
				}
				d := cp()
				q := p
				q.Argv = append(append([]string(nil), p.Argv[:j]...), p.Argv[j+w:]...)
				d.Procs[i] = q
				add(d)
			}
		}
	}
	if c.Sector != 512 {
		d := cp()
		d.Sector = 512
		add(d)
	}
	for i := range c.Files {
		d := cp()
		d.Files = append(d.Files[:i:i], d.Files[i+1:]...)
		add(d)
	}
	for i, f := range c.Files {
		for _, t := range shrinkText(string(f.Data), strings.HasSuffix(f.Name, ".yaml")) {
			d := cp()
			d.Files[i] = File{f.Name, Blob(t)}
			add(d)
		}
	}
	return out
}

// handWritten produces a native-format diff the way a person editing one
// might: every path element kind, indices that are negative, fractional or
// huge, context markers, merge metadata, several values per hunk.
func handWritten(c *Chooser) string {
	var sb strings.Builder
	elems := []string{`"a"`, `"b"`, `"id"`, `0`, `1`, `2`, `-1`, `-3`, `1.5`, `1e30`, `{}`, `[]`, `{"id":1}`, `{"id":[1]}`, `[{"id":1}]`, `[1]`, `[[]]`, `""`, `true`, `null`,
		// the v1 dialect: metadata travels inside the path, as arrays of strings in front of an element
		`["set"]`, `["multiset"]`, `["MERGE"]`, `["setkeys=id"]`, `["set","setkeys=id"]`, `["setkeys=id"],["setkeys=id"]`, `["multiset"],["set"]`, `["nope"]`, `[""]`, `["set"],{}`, `["multiset"],[]`, `["set","setkeys=id"],{"id":1}`}
	v1 := c.Chance(1, 3)
	if v1 {
		// written for (or by) the v1 library: mostly metadata-carrying
		// elements; that dialect has no ^ lines and no context lines
		elems = append(elems[20:], `"a"`, `0`, `{}`, `[]`, `{"id":1}`, `-1`)
	}
	vals := []string{`1`, `"x"`, `{}`, `[]`, `{"a":{"b":1}}`, `[1,2]`, `null`, `true`, `{"id":1,"a":2}`}
	deep := strings.Repeat("[", 40) + strings.Repeat("]", 40)
	deepTheme := !v1 && c.Chance(1, 12)
	if deepTheme {
		// values nested forty arrays deep, addressed as list, set or multiset
		// members of a small document that holds the same value
		vals = []string{deep, deep, `[` + deep + `]`, `1`, `2`}
		elems = []string{`{}`, `[]`, `0`, `-1`, `"a"`, `{}`}
	}
	var prevPath []string
	for h := 0; h < c.Range(1, 4); h++ {
		if c.Chance(1, 3) && !(v1 && c.Chance(9, 10)) {
			sb.WriteString([]string{"^ {\"Merge\":true}\n", "^ {\"Merge\":false}\n", "^ {}\n", "^ {\"Merge\":1}\n"}[c.Pick(6, 2, 1, 1)])
		}
		var path []string
		if h > 0 && c.Chance(1, 3) {
			// reach into what the previous hunk addressed
			path = append(append(path, prevPath...), elems[c.Int(6)])
		} else {
			for d := 0; d < c.Int(4); d++ {
				path = append(path, elems[c.Int(len(elems))])
			}
		}
		if !v1 && c.Chance(1, 4) {
			// a hunk on a list at the document root
			path = []string{[]string{`0`, `1`, `-1`, `2`, `-3`, `1e30`, `-1`}[c.Int(7)]}
		}
		prevPath = path
		sb.WriteString("@ [" + strings.Join(path, ",") + "]\n")
		if c.Chance(1, 3) && !(v1 && c.Chance(9, 10)) {
			sb.WriteString([]string{"[\n", "  " + vals[c.Int(len(vals))] + "\n"}[c.Int(2)])
			if c.Chance(1, 3) {
				// more context than the format promises
				sb.WriteString("  " + vals[c.Int(len(vals))] + "\n")
			}
		}
		for i := 0; i < c.Int(3); i++ {
			if c.Chance(1, 8) {
				sb.WriteString("-\n") // a value lost in transit: the line is still there
			} else {
				sb.WriteString("- " + vals[c.Int(len(vals))] + "\n")
			}
		}
		for i := 0; i < c.Int(3); i++ {
			if c.Chance(1, 8) {
				sb.WriteString("+\n")
			} else {
				sb.WriteString("+ " + vals[c.Int(len(vals))] + "\n")
			}
		}
		if c.Chance(1, 3) && !(v1 && c.Chance(9, 10)) {
			sb.WriteString([]string{"]\n", "  " + vals[c.Int(len(vals))] + "\n"}[c.Int(2)])
		}
	}
	return sb.String()
}

// handWrittenPatch writes a JSON Patch document the way a person or a foreign
// tool might: the operations jd understands in jd's order, mixed with elements
// that are incomplete, of the wrong type, or use pointer tokens at the edges.
func handWrittenPatch(c *Chooser) string {
	paths := []string{`"/a"`, `"/a/0"`, `"/a/1"`, `"/a/-"`, `""`, `"/"`, `"/a//b"`, `"/items/18446744073709551615"`, `"/a/-1"`, `"/a/01"`, `"/a~1b"`, `"/a~0b"`, `"/a~"`, `"a"`, `7`, `null`}
	vals := []string{`1`, `"x"`, `{}`, `[]`, `null`, `{"a":1}`, `[1,2]`}
	elem := func() string {
		p, v := paths[c.Int(len(paths))], vals[c.Int(len(vals))]
		switch c.Int(12) {
		case 0:
			return `{}`
		case 1:
			return `null`
		case 2:
			return `{"value":` + v + `}`
		case 3:
			return `{"op":"add"}`
		case 4:
			return `{"path":` + p + `}`
		case 5:
			return `{"op":` + []string{`"copy"`, `"move"`, `"replace"`, `7`, `null`}[c.Int(5)] + `,"path":` + p + `,"value":` + v + `}`
		case 6, 7:
			return `{"op":"add","path":` + p + `,"value":` + v + `}`
		case 8:
			return `{"op":"test","path":` + p + `,"value":` + v + `},{"op":"remove","path":` + p + `,"value":` + v + `}`
		case 9:
			return `{"op":"test","path":` + p + `,"value":` + v + `}`
		case 10:
			return `{"op":"remove","path":` + p + `}`
		default:
			return `{"op":"test","path":"/a/0","value":` + v + `},{"op":"test","path":"/a/2","value":` + v + `},{"op":"add","path":"/a/1","value":` + v + `}`
		}
	}
	var parts []string
	for i := 0; i < c.Range(1, 4); i++ {
		parts = append(parts, elem())
	}
	return "[" + strings.Join(parts, ",") + "]"
}
