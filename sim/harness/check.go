package main

import (
	"bufio"
	"bytes"
	"encoding/json"
	"flag"
	"fmt"
	"github.com/josephburnett/jd/v2/verif/simos"
	"os"
	"os/exec"
	"path/filepath"
	"sort"
	"strings"
	"sync"
	"time"
)

type tierCfg struct {
	Runs        int64
	Budget      float64 // seconds of simulation per worker
	DetRuns     int64   // runs in the determinism self-test
	Fidelity    int     // fault-free processes cross-checked against real binaries
	ShrinkSecs  float64
	ShrinkTries int
}

func tierOf(prop, tier string) tierCfg {
	// Run counts decide what a seed explores (the same runs on any machine);
	// the wall-clock budget is a safety cap, reported in the evidence when it
	// is what ended the batch.
	quick := map[string]int64{"C13": 600000, "C14": 28000, "C15": 110000}
	if tier == "thorough" {
		return tierCfg{Runs: quick[prop] * 20, Budget: 1500, DetRuns: 600, Fidelity: 4000, ShrinkSecs: 120, ShrinkTries: 20000}
	}
	return tierCfg{Runs: quick[prop], Budget: 240, DetRuns: 40, Fidelity: 150, ShrinkSecs: 30, ShrinkTries: 4000}
}

// ---------------------------------------------------------------- known findings

type knownFinding struct {
	State string // open | fixed
	Prop  string
	Class string
	Where string
	Tag   string
	Text  string
}

func loadKnown(path string) []knownFinding {
	f, err := os.Open(path)
	if err != nil {
		return nil
	}
	defer f.Close()
	var out []knownFinding
	sc := bufio.NewScanner(f)
	for sc.Scan() {
		l := strings.TrimSpace(sc.Text())
		if l == "" || strings.HasPrefix(l, "#") {
			continue
		}
		k := knownFinding{}
		switch {
		case strings.HasPrefix(l, "open:"):
			k.State = "open"
			l = strings.TrimSpace(strings.TrimPrefix(l, "open:"))
		case strings.HasPrefix(l, "fixed:"):
			k.State = "fixed"
			l = strings.TrimSpace(strings.TrimPrefix(l, "fixed:"))
		default:
			continue
		}
		fields := strings.Fields(l)
		rest := []string{}
		for _, fld := range fields {
			switch {
			case strings.HasPrefix(fld, "property=") && k.Prop == "":
				k.Prop = strings.TrimPrefix(fld, "property=")
			case strings.HasPrefix(fld, "class=") && k.Class == "":
				k.Class = strings.TrimPrefix(fld, "class=")
			case strings.HasPrefix(fld, "where=") && k.Where == "":
				k.Where = strings.TrimPrefix(fld, "where=")
			case strings.HasPrefix(fld, "tag=") && k.Tag == "":
				k.Tag = strings.TrimPrefix(fld, "tag=")
			default:
				rest = append(rest, fld)
			}
		}
		k.Text = strings.Join(rest, " ")
		out = append(out, k)
	}
	return out
}

func globMatch(pat, s string) bool {
	ok, err := filepath.Match(pat, s)
	return err == nil && ok
}

func knownFor(known []knownFinding, v *Violation) *knownFinding {
	for i := range known {
		k := &known[i]
		if k.State != "open" || k.Prop != v.Prop {
			continue
		}
		// where may contain '/', which filepath.Match treats specially: compare piecewise
		if k.Class == v.Clause && matchWhere(k.Where, v.Where) && k.Tag == v.Tag {
			return k
		}
	}
	return nil
}

func matchWhere(pat, s string) bool {
	if pat == "*" || pat == s {
		return true
	}
	pp, ss := strings.Split(pat, "/"), strings.Split(s, "/")
	if len(pp) != len(ss) {
		return false
	}
	for i := range pp {
		if !globMatch(pp[i], ss[i]) {
			return false
		}
	}
	return true
}

// ---------------------------------------------------------------- replay files

type ReplayFile struct {
	Property  string          `json:"property"`
	Seed      uint64          `json:"seed"`
	Run       int64           `json:"run"`
	Tier      string          `json:"tier"`
	Violation Violation       `json:"violation"`
	Class     string          `json:"class"`
	Case      json.RawMessage `json:"case"`
	Original  json.RawMessage `json:"original_case,omitempty"`
	EventLog  []string        `json:"event_log"`
	LogDigest string          `json:"log_digest"`
	Note      string          `json:"note"`
}

func logDigest(log []string) string {
	h := uint64(1469598103934665603)
	for _, l := range log {
		h = (h ^ strSeed(l)) * 1099511628211
	}
	return fmt.Sprintf("%016x", h)
}

func replayMain(args []string) {
	if len(args) < 1 {
		infra("replay: file argument required")
	}
	b, err := os.ReadFile(args[0])
	if err != nil {
		infra("replay: %v", err)
	}
	var rf ReplayFile
	if err := json.Unmarshal(b, &rf); err != nil {
		infra("replay: %v", err)
	}
	e := engines[rf.Property]
	if e == nil {
		infra("replay: no engine for %q", rf.Property)
	}
	var v *Violation
	var log []string
	if rf.Violation.Clause == "hang" {
		done := make(chan struct{})
		go func() { e.Check(rf.Case); close(done) }()
		select {
		case <-done:
			fmt.Printf("NOT-REPRODUCED property=%s: the case in %s terminates on this tree\n", rf.Property, args[0])
			os.Exit(0)
		case <-time.After(30 * time.Second):
			fmt.Printf("REPRODUCED class=%s (still running after 30 s)\nVIOLATION property=%s replay=%s\n", rf.Class, rf.Property, args[0])
			os.Exit(1)
		}
	}
	if rf.Violation.Clause == "process-crash" {
		self, _ := os.Executable()
		out, _ := exec.Command(self, "replaychild", args[0]).CombinedOutput()
		if strings.Contains(string(out), "RUN-COMPLETED") {
			fmt.Printf("NOT-REPRODUCED property=%s: the case in %s no longer kills the process\n", rf.Property, args[0])
			os.Exit(0)
		}
		fmt.Printf("%s\nREPRODUCED class=%s (the process evaluating the case died)\nVIOLATION property=%s replay=%s\n", firstLines(string(out), 6), rf.Class, rf.Property, args[0])
		os.Exit(1)
	}
	if rf.Violation.Clause == "across-processes" {
		self, _ := os.Executable()
		if rf.Violation.Tag == "after-other-histories" {
			v, log = warmColdCheck(self, rf.Case, filepath.Dir(args[0]))
		} else {
			v, log = crossProcessCheck(self, rf.Case, filepath.Dir(args[0]))
		}
	} else {
		v, log, err = e.Check(rf.Case)
		if err != nil {
			infra("replay: %v", err)
		}
	}
	for _, l := range log {
		fmt.Println("  ", l)
	}
	if v == nil {
		fmt.Printf("NOT-REPRODUCED property=%s: the case in %s holds on this tree\n", rf.Property, args[0])
		os.Exit(0)
	}
	d := logDigest(log)
	fmt.Printf("violation: %s\n  where: %s\n  tag: %s\n  %s\n", v.Clause, v.Where, v.Tag, v.Detail)
	if v.Class() != rf.Class {
		fmt.Printf("DIFFERENT-CLASS recorded=%s now=%s\n", rf.Class, v.Class())
	} else if d != rf.LogDigest {
		fmt.Printf("REPRODUCED class=%s (event log digest differs: recorded %s now %s)\n", rf.Class, rf.LogDigest, d)
	} else {
		fmt.Printf("REPRODUCED class=%s log_digest=%s\n", rf.Class, d)
	}
	fmt.Printf("VIOLATION property=%s replay=%s\n", rf.Property, args[0])
	os.Exit(1)
}

// shrink minimises a found case while the violation class persists.
func shrink(e *Engine, f Found, cfg tierCfg) (json.RawMessage, *Violation, []string) {
	best := f.Case
	bv := f.V
	var blog = f.Log
	class := f.V.Class()
	deadline := time.Now().Add(time.Duration(cfg.ShrinkSecs * float64(time.Second)))
	tries := 0
	for improved := true; improved; {
		improved = false
		for _, cand := range e.Shrink(best) {
			if tries >= cfg.ShrinkTries || time.Now().After(deadline) {
				return best, &bv, blog
			}
			if len(cand) >= len(best) && bytes.Equal(cand, best) {
				continue
			}
			tries++
			v, log, err := e.Check(cand)
			if err != nil || v == nil || v.Class() != class {
				continue
			}
			if len(cand) < len(best) {
				best, bv, blog = cand, *v, log
				improved = true
				break
			}
		}
	}
	return best, &bv, blog
}

// ---------------------------------------------------------------- coordinator

func envInt(name string, def int) int {
	if v := os.Getenv(name); v != "" {
		var n int
		if _, err := fmt.Sscanf(v, "%d", &n); err == nil {
			return n
		}
	}
	return def
}

func checkMain(args []string) {
	fs := flag.NewFlagSet("check", flag.ExitOnError)
	prop := fs.String("prop", "", "property id")
	tier := fs.String("tier", "quick", "quick | thorough")
	seed := fs.Uint64("seed", 1, "VERIF_SEED")
	verif := fs.String("verif", "/verif", "verification directory (evidence, replays, known findings)")
	scratch := fs.String("scratch", "", "scratch directory of this check run")
	workers := fs.Int("workers", 16, "worker processes")
	budget := fs.Float64("budget", 0, "override seconds of simulation per worker")
	fs.Parse(args)
	e := engines[*prop]
	if e == nil {
		infra("no engine for property %q", *prop)
	}
	if *scratch == "" {
		infra("-scratch required")
	}
	cfg := tierOf(*prop, *tier)
	if *budget > 0 {
		cfg.Budget = *budget
	}
	self, _ := os.Executable()
	t0 := time.Now()
	known := loadKnown(filepath.Join(*verif, "known_findings.txt"))

	// 1. determinism self-test: same runs, fresh processes, different GOMAXPROCS
	detOK, detDetail := determinismSelfTest(self, *prop, *seed, cfg.DetRuns)
	var xproc *Found
	if !detOK {
		// C15 says outputs are the same across fresh processes. Find out whether
		// jd's outputs differ for identical operands (a violation) or whether
		// harness-owned data differs (an infrastructure error).
		if *prop == "C15" {
			xproc = attributeCrossProcess(self, *seed, cfg.DetRuns, *scratch)
		}
		if xproc == nil {
			infra("determinism self-test failed for %s: %s", *prop, detDetail)
		}
		detDetail = "digests differ across fresh processes: attributed to jd (see violation across-processes)"
	}

	// 2. workers
	outs := make([]*WorkerOut, *workers)
	var wg sync.WaitGroup
	var werr error
	var mu sync.Mutex
	var crashes []*Found
	for w := 0; w < *workers; w++ {
		wg.Add(1)
		go func(w int) {
			defer wg.Done()
			outFile := filepath.Join(*scratch, fmt.Sprintf("worker-%s-%d.json", *prop, w))
			progFile := filepath.Join(*scratch, fmt.Sprintf("progress-%s-%d", *prop, w))
			cmd := exec.Command(self, "worker", "-prop", *prop, "-seed", fmt.Sprint(*seed), "-w", fmt.Sprint(w), "-n", fmt.Sprint(*workers),
				"-runs", fmt.Sprint(cfg.Runs), "-budget", fmt.Sprint(cfg.Budget), "-out", outFile, "-progress", progFile)
			cmd.Env = append(os.Environ(), "GOMAXPROCS=2", "GOMEMLIMIT=3GiB")
			var stderr bytes.Buffer
			cmd.Stderr = &stderr
			err := cmd.Run()
			b, rerr := os.ReadFile(outFile)
			mu.Lock()
			defer mu.Unlock()
			if rerr != nil {
				// the worker process died. If one run kills a fresh process
				// every time, that is a verdict about the tree under test (a
				// fatal runtime error cannot be recovered: stack overflow,
				// concurrent map writes, out of memory), not about the harness.
				if f := confirmProcessCrash(self, *prop, *seed, progFile, *scratch, w, stderr.String()); f != nil {
					crashes = append(crashes, f)
					outs[w] = &WorkerOut{EndedBy: "process-crash"}
					return
				}
				werr = fmt.Errorf("worker %d produced no result (%v): %s", w, err, tail(stderr.String(), 2000))
				return
			}
			var o WorkerOut
			if jerr := json.Unmarshal(b, &o); jerr != nil {
				werr = fmt.Errorf("worker %d result unreadable: %v", w, jerr)
				return
			}
			if err != nil && o.Hang == nil {
				werr = fmt.Errorf("worker %d failed (%v): %s", w, err, tail(stderr.String(), 2000))
				return
			}
			outs[w] = &o
		}(w)
	}
	wg.Wait()
	if werr != nil {
		infra("%v", werr)
	}

	// 3. aggregate
	total := Stats{Fired: map[string]int64{}, Probes: map[string]int64{}, Clauses: map[string]int64{}, MapSites: map[string]int64{}}
	sigs, nsigs := map[uint64]bool{}, map[uint64]bool{}
	var samples []json.RawMessage
	found := map[string]*Found{}
	endedBy := map[string]int{}
	var hangs []*Found
	for _, o := range outs {
		total.Runs += o.Stats.Runs
		total.Cases += o.Stats.Cases
		total.Procs += o.Stats.Procs
		total.Steps += o.Stats.Steps
		total.LibCalls += o.Stats.LibCalls
		addMap(total.Fired, o.Stats.Fired)
		addMap(total.Probes, o.Stats.Probes)
		addMap(total.Clauses, o.Stats.Clauses)
		addMap(total.MapSites, o.Stats.MapSites)
		for _, h := range o.Sigs {
			sigs[h] = true
		}
		for _, h := range o.NontrivSigs {
			nsigs[h] = true
		}
		if len(samples) < 3 && len(o.Samples) > 0 {
			samples = append(samples, o.Samples[0])
		}
		for i := range o.Found {
			f := o.Found[i]
			cl := f.V.Class()
			if g, ok := found[cl]; ok {
				g.Count += f.Count
				if f.Run < g.Run {
					cnt := g.Count
					found[cl] = &f
					found[cl].Count = cnt
				}
			} else {
				found[cl] = &f
			}
		}
		endedBy[o.EndedBy]++
		if o.Hang != nil {
			hangs = append(hangs, o.Hang)
		}
	}
	simWall := time.Since(t0).Seconds()

	// 4. hangs: re-run in fresh processes with a doubled limit
	violations := 0
	inconclusive := 0
	var lines []string
	var knownLines []string
	if len(hangs) > 2 {
		inconclusive += len(hangs) - 2 // confirmed two at a time at most: they usually share one cause
		hangs = hangs[:2]
	}
	for _, h := range hangs {
		if confirmHang(self, *prop, h, *scratch) {
			// a process or call that never ends satisfies no property: it
			// neither exits 0/1/2 nor returns a result or an error
			h.V.Prop = *prop
			path := writeReplay(*verif, *prop, *seed, *tier, h, h.Case, &h.V, nil)
			fmt.Printf("  hang | %s\n", h.V.Detail)
			lines = append(lines, fmt.Sprintf("VIOLATION property=%s replay=%s", *prop, path))
			violations++
		} else {
			inconclusive++
		}
	}

	if xproc != nil {
		found[xproc.V.Class()] = xproc
	}
	if *prop == "C15" && xproc == nil {
		// a process that has lived through other histories against one that has not
		n := int64(400)
		if *tier == "thorough" {
			n = 4000
		}
		f, compared := warmColdSample(self, *seed, n, *scratch)
		total.Probes["history-compared-between-cold-and-warm-process"] += compared
		if f != nil {
			found[f.V.Class()] = f
		}
		per := int64(2500)
		if *tier == "thorough" {
			per = 12000
		}
		f, soaked := soakSample(self, *seed, 16, per, *scratch)
		total.Probes["history-compared-with-and-without-fresh-package-state-in-one-long-process"] += soaked
		if f != nil {
			if _, dup := found[f.V.Class()]; !dup {
				found[f.V.Class()] = f
			}
		}
	}
	for _, f := range crashes {
		if _, ok := found[f.V.Class()]; !ok {
			found[f.V.Class()] = f
		}
	}
	// 5. violations: known-finding filter, shrink, replay file, replay check
	classes := make([]string, 0, len(found))
	for cl := range found {
		classes = append(classes, cl)
	}
	sort.Strings(classes)
	knownSeen := map[*knownFinding]int64{}
	var irreproducible []string
	shrinkStart := time.Now()
	for _, cl := range classes {
		f := found[cl]
		if k := knownFor(known, &f.V); k != nil {
			knownSeen[k] += f.Count
			continue
		}
		// minimise within a total budget: many classes usually share one root
		// cause, and the first few minimised replays are what a reader needs
		min, mv, mlog := f.Case, &f.V, f.Log
		if time.Since(shrinkStart).Seconds() < cfg.ShrinkSecs*3 && f.V.Clause != "across-processes" && f.V.Clause != "process-crash" {
			min, mv, mlog = shrink(e, *f, cfg)
		}
		path := writeReplay(*verif, *prop, *seed, *tier, f, min, mv, mlog)
		// the replay must reproduce in a fresh process before it is believed
		var out []byte
		reproduced := false
		for attempt := 0; attempt < 4 && !reproduced; attempt++ {
			// one attempt is enough for everything the simulator controls; a tree
			// that starts goroutines of its own may need more than one
			cmd := exec.Command(self, "replay", path)
			out, _ = cmd.CombinedOutput()
			reproduced = cmd.ProcessState != nil && cmd.ProcessState.ExitCode() == 1 && strings.Contains(string(out), "REPRODUCED class="+mv.Class())
		}
		if !reproduced {
			// not believed, hence not reported. If nothing else reproduces
			// either, the run ends as an infrastructure error below; a tree
			// whose behaviour depends on something no process can repeat
			// (pointer values used as map keys, goroutines of its own) may
			// produce such a class next to others that do reproduce.
			irreproducible = append(irreproducible, fmt.Sprintf("%s: %s", mv.Class(), tail(string(out), 600)))
			os.Remove(path)
			continue
		}
		lines = append(lines, fmt.Sprintf("VIOLATION property=%s replay=%s", *prop, path))
		fmt.Printf("  %s | %s | %s\n", mv.Clause, mv.Where, mv.Detail)
		violations++
	}
	for _, ir := range irreproducible {
		fmt.Printf("IRREPRODUCIBLE (not reported as a violation): %s\n", firstLines(ir, 2))
	}
	if violations == 0 && len(irreproducible) > 0 {
		infra("%d violation class(es) were found by the workers but none reproduced in a fresh process (harness nondeterminism?); first: %s", len(irreproducible), irreproducible[0])
	}
	for i := range known {
		k := &known[i]
		if n, ok := knownSeen[k]; ok {
			knownLines = append(knownLines, fmt.Sprintf("KNOWN-FINDING: property=%s class=%s where=%s tag=%s %s (seen %d times in this run)", k.Prop, k.Class, k.Where, k.Tag, k.Text, n))
		} else if k.State == "open" && k.Prop == *prop {
			knownLines = append(knownLines, fmt.Sprintf("KNOWN-FINDING: property=%s class=%s where=%s tag=%s %s (not reached in this run)", k.Prop, k.Class, k.Where, k.Tag, k.Text))
		}
	}

	// 6. fidelity: simulated processes against the unmodified binaries
	fid := fidelityResult{}
	if *prop == "C14" || *prop == "C13" {
		fid = runFidelity(self, *scratch, *seed, cfg.Fidelity)
		if fid.Mismatch > 0 {
			infra("fidelity self-test: simulator and unmodified binary disagree on %d of %d processes; first: %s", fid.Mismatch, fid.Compared, fid.First)
		}
	}

	wall := time.Since(t0).Seconds()
	writeEvidence(*verif, *prop, *tier, *seed, cfg, &total, len(sigs), len(nsigs), samples, violations, inconclusive, wall, simWall, endedBy, detDetail, fid, knownLines, *workers)

	for _, l := range knownLines {
		fmt.Println(l)
	}
	fmt.Printf("%s %s seed=%d: runs=%d cases=%d processes=%d steps=%d distinct=%d nontrivial=%d violations=%d wall=%.1fs\n",
		*prop, *tier, *seed, total.Runs, total.Cases, total.Procs, total.Steps, len(sigs), len(nsigs), violations, wall)
	for _, l := range lines {
		fmt.Println(l)
	}
	if violations > 0 {
		os.Exit(1)
	}
	os.Exit(0)
}

func addMap(dst, src map[string]int64) {
	for k, v := range src {
		dst[k] += v
	}
}

func tail(s string, n int) string {
	if len(s) > n {
		return "..." + s[len(s)-n:]
	}
	return s
}

var errDigestTimeout = fmt.Errorf("digest timed out")

func determinismSelfTest(self, prop string, seed uint64, runs int64) (bool, string) {
	type res struct {
		out string
		err error
	}
	procs := []string{"1", "4", "16"}
	results := make([]res, len(procs))
	var wg sync.WaitGroup
	for i, gmp := range procs {
		wg.Add(1)
		go func(i int, gmp string) {
			defer wg.Done()
			cmd := exec.Command(self, "digest", "-prop", prop, "-seed", fmt.Sprint(seed), "-from", "0", "-to", fmt.Sprint(runs))
			cmd.Env = append(os.Environ(), "GOMAXPROCS="+gmp, "GOMEMLIMIT=3GiB")
			var ob bytes.Buffer
			cmd.Stdout = &ob
			done := make(chan error, 1)
			if err := cmd.Start(); err != nil {
				results[i] = res{"", err}
				return
			}
			go func() { done <- cmd.Wait() }()
			select {
			case err := <-done:
				results[i] = res{ob.String(), err}
			case <-time.After(time.Duration(60+runs) * time.Second):
				cmd.Process.Kill()
				<-done
				results[i] = res{"", errDigestTimeout}
			}
		}(i, gmp)
	}
	wg.Wait()
	for _, r := range results {
		if r.err == errDigestTimeout {
			// a case that does not end: the workers' watchdog reports it with
			// its case; nothing to compare here
			return true, "skipped: a run did not finish within the self-test's time limit (see the watchdog verdict of the workers)"
		}
	}
	for i, r := range results {
		if r.err != nil {
			return false, fmt.Sprintf("digest process %d failed: %v", i, r.err)
		}
		if r.out != results[0].out {
			a, b := strings.Split(results[0].out, "\n"), strings.Split(r.out, "\n")
			for j := range a {
				if j >= len(b) || a[j] != b[j] {
					return false, fmt.Sprintf("GOMAXPROCS=%s vs %s differ at: %q vs %q", procs[0], procs[i], a[j], b[min(j, len(b)-1)])
				}
			}
			return false, "outputs differ in length"
		}
	}
	return true, fmt.Sprintf("%d runs x %d fresh processes (GOMAXPROCS 1/4/16): identical digests", runs, len(procs))
}

func confirmHang(self, prop string, h *Found, scratch string) bool {
	rf := ReplayFile{Property: prop, Case: h.Case, Class: h.V.Class()}
	b, _ := json.Marshal(rf)
	p := filepath.Join(scratch, "hang-case.json")
	os.WriteFile(p, b, 0o644)
	hung := 0
	var mu sync.Mutex
	var wg sync.WaitGroup
	for i := 0; i < 2; i++ {
		wg.Add(1)
		go func() {
			defer wg.Done()
			cmd := exec.Command(self, "replay", p)
			done := make(chan struct{})
			go func() { cmd.Run(); close(done) }()
			select {
			case <-done:
			case <-time.After(40 * time.Second):
				cmd.Process.Kill()
				<-done
				mu.Lock()
				hung++
				mu.Unlock()
			}
		}()
	}
	wg.Wait()
	return hung == 2
}

func writeReplay(verif, prop string, seed uint64, tier string, f *Found, min json.RawMessage, v *Violation, log []string) string {
	dir := filepath.Join(verif, "replays")
	if d := os.Getenv("VERIF_REPLAY_DIR"); d != "" {
		dir = d // development aid: sensitivity runs keep their output out of /verif
	}
	os.MkdirAll(dir, 0o755)
	rf := ReplayFile{
		Property: prop, Seed: seed, Run: f.Run, Tier: tier, Violation: *v, Class: v.Class(),
		Case: min, EventLog: log, LogDigest: logDigest(log),
		Note: "minimised case; re-execute with: ./check replay <this file>",
	}
	if !bytes.Equal(min, f.Case) {
		rf.Original = f.Case
	}
	b, _ := json.MarshalIndent(rf, "", " ")
	name := fmt.Sprintf("%s-%016x.json", prop, strSeed(v.Class()))
	path := filepath.Join(dir, name)
	if err := os.WriteFile(path, b, 0o644); err != nil {
		infra("cannot write replay file: %v", err)
	}
	return path
}

// selftestMain proves determinism on a large sample: the same runs executed
// in many fresh processes under GOMAXPROCS 1/4/16 must print identical digests.
func selftestMain(args []string) {
	fs := flag.NewFlagSet("selftest", flag.ExitOnError)
	prop := fs.String("prop", "", "property id")
	seed := fs.Uint64("seed", 1, "seed")
	procs := fs.Int("procs", 30, "fresh processes")
	runs := fs.Int64("runs", 300, "runs per process")
	fs.Parse(args)
	self, _ := os.Executable()
	outs := make([]string, *procs)
	var wg sync.WaitGroup
	sem := make(chan struct{}, 16)
	for i := 0; i < *procs; i++ {
		wg.Add(1)
		go func(i int) {
			defer wg.Done()
			sem <- struct{}{}
			defer func() { <-sem }()
			cmd := exec.Command(self, "digest", "-prop", *prop, "-seed", fmt.Sprint(*seed), "-from", "0", "-to", fmt.Sprint(*runs))
			cmd.Env = append(os.Environ(), "GOMAXPROCS="+[]string{"1", "4", "16"}[i%3])
			o, err := cmd.Output()
			if err != nil {
				outs[i] = "ERROR " + err.Error()
				return
			}
			outs[i] = string(o)
		}(i)
	}
	wg.Wait()
	bad := 0
	for i := range outs {
		if outs[i] != outs[0] || strings.HasPrefix(outs[i], "ERROR") {
			bad++
		}
	}
	fmt.Printf("selftest %s seed=%d: %d runs x %d fresh processes (GOMAXPROCS 1/4/16): %d differing\n", *prop, *seed, *runs, *procs, bad)
	if bad > 0 {
		os.Exit(2)
	}
}

// trace15Main prints, for a C15 case file, one line per call with operand
// digest and complete output. Used to compare fresh processes.
func trace15Main(args []string) {
	b, err := os.ReadFile(args[0])
	if err != nil {
		infra("trace15: %v", err)
	}
	var c C15Case
	if err := json.Unmarshal(b, &c); err != nil {
		infra("trace15: %v", err)
	}
	var lines []string
	trace15 = &lines
	v, _, _ := checkC15(c)
	for _, l := range lines {
		fmt.Println(l)
	}
	if v != nil {
		fmt.Println("in-process violation:", v.Class())
	}
}

// crossProcessCheck runs the history of a C15 case in three fresh processes
// and compares what jd returned call by call.
func crossProcessCheck(self string, raw json.RawMessage, dir string) (*Violation, []string) {
	f, err := os.CreateTemp(dir, "xproc-case-*.json")
	if err != nil {
		infra("cross-process check: %v", err)
	}
	f.Write(raw)
	f.Close()
	defer os.Remove(f.Name())
	var outs [][]string
	for _, gmp := range []string{"1", "4", "16", "2"} {
		cmd := exec.Command(self, "trace15", f.Name())
		cmd.Env = append(os.Environ(), "GOMAXPROCS="+gmp)
		o, err := cmd.Output()
		if err != nil {
			infra("cross-process check: trace failed: %v", err)
		}
		outs = append(outs, strings.Split(strings.TrimRight(string(o), "\n"), "\n"))
	}
	for p := 1; p < len(outs); p++ {
		for i := range outs[0] {
			if i >= len(outs[p]) || outs[0][i] == outs[p][i] {
				continue
			}
			a, b := outs[0][i], outs[p][i]
			ia, ib := strings.Index(a, " output="), strings.Index(b, " output=")
			if ia < 0 || ib < 0 || a[:ia] != b[:ib] {
				return nil, outs[0] // operands differ: not attributable to this call
			}
			op := strings.Fields(a)[2]
			if strings.HasPrefix(a, "construct") {
				op = "Diff/Read"
			}
			v := viol15("across-processes", op, "the same call on identical values returned different results in two fresh processes: %s | %s", clip(a[ia+8:]), clip(b[ib+8:]))
			return v, []string{"process 0: " + a, fmt.Sprintf("process %d: %s", p, b)}
		}
	}
	return nil, outs[0]
}

// attributeCrossProcess looks for a run whose history behaves differently in
// different processes and, if jd is responsible, returns it as a finding.
func attributeCrossProcess(self string, seed uint64, runs int64, scratch string) *Found {
	for run := int64(0); run < runs; run++ {
		ch := newChooser(runSeed(seed, "C15", run))
		c := genCase15(ch)
		raw, _ := json.Marshal(c)
		v, log := crossProcessCheck(self, raw, scratch)
		if v != nil {
			return &Found{Run: run, V: *v, Case: raw, Log: log, Count: 1}
		}
	}
	return nil
}

func firstLines(s string, n int) string {
	l := strings.Split(s, "\n")
	if len(l) > n {
		l = l[:n]
	}
	return strings.Join(l, "\n")
}

// confirmProcessCrash re-executes, twice and in fresh processes, the run a
// dead worker was working on. If both die too, the last case they announced is
// returned as a finding.
func confirmProcessCrash(self, prop string, seed uint64, progFile, scratch string, w int, stderr string) *Found {
	b, err := os.ReadFile(progFile)
	if err != nil {
		return nil
	}
	run := strings.TrimSpace(string(b))
	cf := filepath.Join(scratch, fmt.Sprintf("crash-case-%s-%d.json", prop, w))
	var last []byte
	for i := 0; i < 2; i++ {
		os.Remove(cf)
		cmd := exec.Command(self, "runone", "-prop", prop, "-seed", fmt.Sprint(seed), "-run", run, "-casefile", cf)
		cmd.Env = append(os.Environ(), "GOMEMLIMIT=3GiB")
		out, _ := cmd.CombinedOutput()
		if strings.Contains(string(out), "RUN-COMPLETED") {
			return nil
		}
		last = out
	}
	raw, err := os.ReadFile(cf)
	if err != nil {
		return nil
	}
	what := "the process died"
	for _, l := range strings.Split(string(last), "\n") {
		if strings.HasPrefix(l, "fatal error:") || strings.HasPrefix(l, "runtime:") || strings.HasPrefix(l, "panic:") {
			what = strings.TrimSpace(l)
			break
		}
	}
	var r int64
	fmt.Sscan(run, &r)
	v := Violation{Prop: prop, Clause: "process-crash", Where: strings.ReplaceAll(what, " ", "-"), Detail: fmt.Sprintf("evaluating this case kills the process, twice out of two fresh processes: %s. A fatal runtime error cannot be recovered: a real jd process would die the same way with a Go runtime dump.", what)}
	return &Found{Run: r, V: v, Case: raw, Log: []string{firstLines(string(last), 12)}, Count: 1}
}

// traceCase runs the history of a C15 case (after its warm-up histories, if
// any) in a fresh process and returns the per-call trace.
func traceCase(self string, c C15Case, dir string) ([]string, error) {
	f, err := os.CreateTemp(dir, "trace-case-*.json")
	if err != nil {
		return nil, err
	}
	b, _ := json.Marshal(c)
	f.Write(b)
	f.Close()
	defer os.Remove(f.Name())
	cmd := exec.Command(self, "trace15", f.Name())
	cmd.Env = append(os.Environ(), "GOMAXPROCS=2", "GOMEMLIMIT=3GiB")
	done := make(chan struct{})
	var o []byte
	go func() { o, err = cmd.Output(); close(done) }()
	select {
	case <-done:
	case <-time.After(60 * time.Second):
		cmd.Process.Kill()
		<-done
		return nil, errDigestTimeout
	}
	if err != nil {
		return nil, err
	}
	return strings.Split(strings.TrimRight(string(o), "\n"), "\n"), nil
}

// warmColdCheck compares what jd returns for the calls of a history in a
// process that runs nothing else (cold) with a process that first ran the
// case's warm-up histories (warm). Operands are identical by construction;
// the trace lines carry their digest to prove it.
func warmColdCheck(self string, raw json.RawMessage, dir string) (*Violation, []string) {
	var c C15Case
	if err := json.Unmarshal(raw, &c); err != nil {
		infra("warm/cold check: %v", err)
	}
	cold := c
	cold.WarmUp, cold.WarmRange = nil, nil
	a, err1 := traceCase(self, cold, dir)
	b, err2 := traceCase(self, c, dir)
	if err1 != nil || err2 != nil {
		return nil, nil // a history that kills or stalls a process is the workers' subject
	}
	for i := range a {
		if i >= len(b) || a[i] == b[i] {
			continue
		}
		ia, ib := strings.Index(a[i], " output="), strings.Index(b[i], " output=")
		if ia < 0 || ib < 0 || a[i][:ia] != b[i][:ib] {
			return nil, a
		}
		op := strings.Fields(a[i])[2]
		if strings.HasPrefix(a[i], "construct") {
			op = "Diff/Read"
		}
		nwarm := int64(len(c.WarmUp))
		if c.WarmRange != nil {
			nwarm += c.WarmRange.To - c.WarmRange.From
		}
		v := viol15("across-processes", op, "the same call on identical values returns %s in a process that did nothing before, and %s in a process that ran %d other histories first", clip(a[i][ia+8:]), clip(b[i][ib+8:]), nwarm)
		v.Tag = "after-other-histories"
		return v, []string{"cold process: " + a[i], "warm process: " + b[i]}
	}
	return nil, a
}

// warmColdSample applies warmColdCheck to n runs of the seed, each warmed up
// with the six runs before it, and minimises the warm-up of the first failure.
func warmColdSample(self string, seed uint64, n int64, scratch string) (*Found, int64) {
	const k = 6
	gen := func(run int64) C15Case { return genCase15(newChooser(runSeed(seed, "C15", run))) }
	type res struct {
		run int64
		v   *Violation
		log []string
		c   C15Case
	}
	results := make([]res, n)
	var wg sync.WaitGroup
	sem := make(chan struct{}, 16)
	for i := int64(0); i < n; i++ {
		wg.Add(1)
		go func(i int64) {
			defer wg.Done()
			sem <- struct{}{}
			defer func() { <-sem }()
			run := k + i*7
			c := gen(run)
			for j := run - k; j < run; j++ {
				c.WarmUp = append(c.WarmUp, gen(j))
			}
			raw, _ := json.Marshal(c)
			v, log := warmColdCheck(self, raw, scratch)
			results[i] = res{run, v, log, c}
		}(i)
	}
	wg.Wait()
	for _, r := range results {
		if r.v == nil {
			continue
		}
		c, v, log := r.c, r.v, r.log
		class := v.Class()
		for len(c.WarmUp) > 16 {
			// long warm-ups: try to drop halves before single histories
			half := len(c.WarmUp) / 2
			shrunk := false
			for _, keep := range [][]C15Case{c.WarmUp[half:], c.WarmUp[:half]} {
				d := c
				d.WarmUp = append([]C15Case(nil), keep...)
				raw, _ := json.Marshal(d)
				if v2, log2 := warmColdCheck(self, raw, scratch); v2 != nil && v2.Class() == class {
					c, v, log = d, v2, log2
					shrunk = true
					break
				}
			}
			if !shrunk {
				break
			}
		}
		for i := 0; i < len(c.WarmUp) && len(c.WarmUp) <= 64; {
			d := c
			d.WarmUp = append(append([]C15Case(nil), c.WarmUp[:i]...), c.WarmUp[i+1:]...)
			raw, _ := json.Marshal(d)
			if v2, log2 := warmColdCheck(self, raw, scratch); v2 != nil && v2.Class() == class {
				c, v, log = d, v2, log2
			} else {
				i++
			}
		}
		// the one call that differs, alone, if that is enough
		var ci int
		if len(log) > 0 {
			if _, err := fmt.Sscanf(strings.TrimPrefix(log[0], "cold process: "), "call %d", &ci); err == nil && ci < len(c.Calls) {
				d := c
				d.Calls = []Call{c.Calls[ci]}
				raw, _ := json.Marshal(d)
				if v2, log2 := warmColdCheck(self, raw, scratch); v2 != nil && v2.Class() == class {
					c, v, log = d, v2, log2
				}
			}
		}
		raw, _ := json.Marshal(c)
		return &Found{Run: r.run, V: *v, Case: raw, Log: log, Count: 1}, n
	}
	return nil, n
}

func clip(s string) string {
	if len(s) > 500 {
		return s[:500] + "..."
	}
	return s
}

// soak15Main runs the histories of runs From..To-1 twice in this process:
// once the way the workers do (fresh package state before each), once without
// ever resetting anything, and prints the first run whose calls return
// something else the second time. A process that has lived long must answer
// like one that was just started.
func soak15Main(args []string) {
	fs := flag.NewFlagSet("soak15", flag.ExitOnError)
	seed := fs.Uint64("seed", 1, "seed")
	from := fs.Int64("from", 0, "first run")
	to := fs.Int64("to", 1000, "one past the last run")
	fs.Parse(args)
	digests := make([]uint64, *to-*from)
	pass := func(noReset bool) int64 {
		soakNoReset = noReset
		simos.ResetGlobals()
		for run := *from; run < *to; run++ {
			c := genCase15(newChooser(runSeed(*seed, "C15", run)))
			c.Reorder = 0
			var lines []string
			trace15 = &lines
			func() {
				defer func() { recover() }()
				checkC15(c)
			}()
			trace15 = nil
			d := strSeed(strings.Join(lines, "\n"))
			if !noReset {
				digests[run-*from] = d
			} else if digests[run-*from] != d {
				return run
			}
		}
		return -1
	}
	pass(false)
	if bad := pass(true); bad >= 0 {
		fmt.Printf("SOAK-MISMATCH run=%d\n", bad)
		return
	}
	fmt.Printf("SOAK-OK %d\n", *to-*from)
}

// soakSample runs soak15 over several stretches of runs in parallel and turns
// the first confirmed mismatch into a finding.
func soakSample(self string, seed uint64, procs int, per int64, scratch string) (*Found, int64) {
	type res struct {
		from, bad int64
	}
	out := make([]res, procs)
	var wg sync.WaitGroup
	for i := 0; i < procs; i++ {
		wg.Add(1)
		go func(i int) {
			defer wg.Done()
			from := int64(i) * per
			out[i] = res{from, -1}
			cmd := exec.Command(self, "soak15", "-seed", fmt.Sprint(seed), "-from", fmt.Sprint(from), "-to", fmt.Sprint(from+per))
			cmd.Env = append(os.Environ(), "GOMAXPROCS=2", "GOMEMLIMIT=3GiB")
			done := make(chan struct{})
			var o []byte
			go func() { o, _ = cmd.Output(); close(done) }()
			select {
			case <-done:
			case <-time.After(600 * time.Second):
				cmd.Process.Kill()
				<-done
				return
			}
			var bad int64
			if _, err := fmt.Sscanf(strings.TrimSpace(string(o)), "SOAK-MISMATCH run=%d", &bad); err == nil {
				out[i].bad = bad
			}
		}(i)
	}
	wg.Wait()
	for _, r := range out {
		if r.bad < 0 {
			continue
		}
		c := genCase15(newChooser(runSeed(seed, "C15", r.bad)))
		c.Reorder = 0
		c.WarmRange = &WarmRange{Seed: seed, From: r.from, To: r.bad}
		raw, _ := json.Marshal(c)
		if v, log := warmColdCheck(self, raw, scratch); v != nil {
			v.Detail += fmt.Sprintf(" (the histories of runs %d..%d of seed %d)", r.from, r.bad-1, seed)
			return &Found{Run: r.bad, V: *v, Case: raw, Log: log, Count: 1}, int64(procs) * per
		}
	}
	return nil, int64(procs) * per
}
