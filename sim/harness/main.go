package main

import (
	"fmt"
	"os"
)

type Stats struct {
	Procs int64
	Steps int64
	Fired map[string]int64
}

func (s *Stats) fired(k string) {
	if s.Fired == nil {
		s.Fired = map[string]int64{}
	}
	s.Fired[k]++
}

var stats Stats

func main() {
	if len(os.Args) < 2 {
		fmt.Fprintln(os.Stderr, "usage: jdsim <cmd>")
		os.Exit(2)
	}
	switch os.Args[1] {
	case "smoke":
		smoke()
	default:
		fmt.Fprintln(os.Stderr, "unknown command")
		os.Exit(2)
	}
}

func smoke() {
	files := []File{{"a.json", Blob(`{"a":[1,2,3],"b":1}`)}, {"b.json", Blob(`{"a":[1,4,3],"c":2}`)}}
	for _, bin := range []string{"v2", "top"} {
		fs := fsFromFiles(files, nil)
		for _, argv := range [][]string{{"a.json", "b.json"}, {"-f", "patch", "-o", "p", "a.json", "b.json"}, {"-p", "-f=patch", "p", "a.json"}, {"nope", "b.json"}, {"-zz"}, {"-v2=false", "a.json", "b.json"}, {"-version"}, {"-port", "8080"}} {
			r := runProc(fs, ProcSpec{Bin: bin, Argv: argv}, 8, nil)
			fmt.Printf("== %s %v -> code=%d crash=%q\nstdout=%q\nstderr=%q\n", bin, argv, r.Code, r.Crash, r.Stdout, r.Stderr)
			for _, l := range eventLog(0, r) {
				fmt.Println("   ", l)
			}
		}
		r := runProc(fs, ProcSpec{Bin: bin, Argv: []string{"a.json"}, Stdin: &StdinSpec{From: "file:b.json", Plan: []int{1, 0, 3}}}, 8, nil)
		fmt.Printf("== stdin -> code=%d stdout=%q steps=%d\n", r.Code, r.Stdout, len(r.Steps))
		fmt.Println(fsDigest(fs))
	}
}
