// jdsim is the deterministic simulator for josephburnett/jd. It is built inside
// an instrumented scratch copy of the repository (see /verif/build.sh) and
// contains the real library and both real main() bodies.
//
//	jdsim check   -prop C14 -tier quick ...   coordinator: self-tests, workers, shrink, replay check, evidence
//	jdsim worker  ...                         one single-threaded worker over a slice of run numbers
//	jdsim digest  ...                         per-run digests for the determinism self-test
//	jdsim replay  <file>                      re-execute a replay file
//	jdsim smoke                               a few fixed sessions, for eyeballing
package main

import (
	"encoding/json"
	"flag"
	"fmt"
	"github.com/josephburnett/jd/v2/verif/simos"
	"os"
	"sort"
	"strconv"
	"sync/atomic"
	"testing"
	"time"
)

// Stats is everything a worker measures. Only counters; no clocks inside runs.
type Stats struct {
	Runs        int64            `json:"runs"`
	Cases       int64            `json:"cases"`
	Procs       int64            `json:"procs"`
	LibCalls    int64            `json:"lib_calls"`
	Steps       int64            `json:"steps"`
	Fired       map[string]int64 `json:"fired"`
	Probes      map[string]int64 `json:"probes"`
	Clauses     map[string]int64 `json:"clauses"`
	MapSites    map[string]int64 `json:"map_sites_permuted"`
	Sigs        map[uint64]bool  `json:"-"`
	NontrivSigs map[uint64]bool  `json:"-"`
}

func (s *Stats) fired(k string) {
	if s.Fired == nil {
		s.Fired = map[string]int64{}
	}
	s.Fired[k]++
}

func (s *Stats) probe(k string) {
	if s.Probes == nil {
		s.Probes = map[string]int64{}
	}
	s.Probes[k]++
}

func (s *Stats) probeN(k string, n int64) {
	if s.Probes == nil {
		s.Probes = map[string]int64{}
	}
	s.Probes[k] += n
}

func (s *Stats) clause(k string) {
	if s.Clauses == nil {
		s.Clauses = map[string]int64{}
	}
	s.Clauses[k]++
}

func (s *Stats) sig(sig string, nontrivial bool) {
	if s.Sigs == nil {
		s.Sigs = map[uint64]bool{}
		s.NontrivSigs = map[uint64]bool{}
	}
	h := strSeed(sig)
	s.Sigs[h] = true
	if nontrivial {
		s.NontrivSigs[h] = true
	}
}

var stats Stats

// Found is a violation with the concrete case that produced it.
type Found struct {
	Run   int64           `json:"run"`
	V     Violation       `json:"violation"`
	Case  json.RawMessage `json:"case"`
	Log   []string        `json:"event_log"`
	Count int64           `json:"count"` // how many cases of this class the worker saw
}

// WorkerOut is what a worker writes.
type WorkerOut struct {
	Stats       Stats             `json:"stats"`
	Sigs        []uint64          `json:"sigs"`
	NontrivSigs []uint64          `json:"nontrivial_sigs"`
	Found       []Found           `json:"found"`
	Samples     []json.RawMessage `json:"samples"`
	Digests     map[string]string `json:"digests,omitempty"`
	EndedBy     string            `json:"ended_by"`
	Hang        *Found            `json:"hang,omitempty"`
}

// Engine is one property's simulation engine.
type Engine struct {
	Prop string
	// Run performs run number `run` with all choices from ch, reporting every
	// evaluated case through emit.
	Run func(ch *Chooser, emit func(c any, v *Violation, log []string, info *caseInfo))
	// Check re-evaluates a concrete case (replay, shrinking).
	Check func(raw json.RawMessage) (*Violation, []string, error)
	// Shrink returns one-step reductions of a case.
	Shrink func(raw json.RawMessage) []json.RawMessage
}

var engines = map[string]*Engine{}

func runSeed(seed uint64, prop string, run int64) uint64 {
	return mix(seed, strSeed(prop), uint64(run))
}

// current case, for the watchdog
var curCase atomic.Value
var curStart atomic.Int64

func main() {
	if !simos.TreeHasGoroutines {
		realMain()
		return
	}
	// The tree under test starts goroutines. Their interleaving is decided by
	// the scheduler in simos/sched.go, which runs every simulated process and
	// library call in a testing/synctest bubble; synctest wants a *testing.T,
	// so the whole program becomes the body of one test.
	args := os.Args
	os.Args = []string{args[0]}
	testing.Main(func(pat, str string) (bool, error) { return true, nil }, []testing.InternalTest{{Name: "jdsim", F: func(t *testing.T) {
		simos.T = t
		os.Args = args
		realMain()
		os.Exit(0)
	}}}, nil, nil)
}

func realMain() {
	if len(os.Args) < 2 {
		fmt.Fprintln(os.Stderr, "usage: jdsim <check|worker|digest|replay|smoke> ...")
		os.Exit(2)
	}
	switch os.Args[1] {
	case "smoke":
		smoke()
	case "worker":
		workerMain(os.Args[2:])
	case "digest":
		digestMain(os.Args[2:])
	case "replay":
		replayMain(os.Args[2:])
	case "check":
		checkMain(os.Args[2:])
	case "runone":
		runoneMain(os.Args[2:])
	case "replaychild":
		replaychildMain(os.Args[2:])
	case "warmcold":
		// development aid: warmcold <seed> <n>
		var seed uint64
		var n int64
		fmt.Sscan(os.Args[2], &seed)
		fmt.Sscan(os.Args[3], &n)
		self, _ := os.Executable()
		dir, _ := os.MkdirTemp("", "warmcold")
		defer os.RemoveAll(dir)
		f, k := warmColdSample(self, seed, n, dir)
		fmt.Println("compared", k)
		if f != nil {
			fmt.Println(f.V.Class(), f.V.Detail)
			fmt.Println(string(f.Case))
		}
	case "soak15":
		soak15Main(os.Args[2:])
	case "trace15":
		trace15Main(os.Args[2:])
	case "selftest":
		selftestMain(os.Args[2:])
	case "fidelity":
		fidelityMain(os.Args[2:])
	default:
		fmt.Fprintln(os.Stderr, "unknown command", os.Args[1])
		os.Exit(2)
	}
}

func infra(format string, a ...any) {
	fmt.Fprintf(os.Stderr, "INFRA-ERROR "+format+"\n", a...)
	fmt.Printf("INFRA-ERROR "+format+"\n", a...)
	os.Exit(2)
}

// ---------------------------------------------------------------- worker

func workerMain(args []string) {
	fs := flag.NewFlagSet("worker", flag.ExitOnError)
	prop := fs.String("prop", "", "property id")
	seed := fs.Uint64("seed", 1, "VERIF_SEED")
	w := fs.Int64("w", 0, "worker index")
	n := fs.Int64("n", 1, "number of workers")
	runs := fs.Int64("runs", 1000, "run numbers explored are [0, runs)")
	budget := fs.Float64("budget", 60, "wall-clock budget in seconds")
	out := fs.String("out", "", "result file")
	watchdog := fs.Float64("watchdog", 20, "per-case wall-clock limit in seconds")
	progress := fs.String("progress", "", "file that always holds the number of the run in progress")
	fs.Parse(args)
	e := engines[*prop]
	if e == nil {
		infra("no engine for property %q", *prop)
	}
	res := WorkerOut{EndedBy: "run-count"}
	classes := map[string]int{}
	start := time.Now()

	// watchdog: lives outside the runs, never influences one
	go func() {
		for {
			time.Sleep(500 * time.Millisecond)
			st := curStart.Load()
			if st == 0 {
				continue
			}
			if time.Since(time.Unix(0, st)).Seconds() > *watchdog {
				c, _ := curCase.Load().(json.RawMessage)
				res.Hang = &Found{Case: c, V: Violation{Prop: *prop, Clause: "hang", Where: "?", Detail: fmt.Sprintf("case did not finish within %.0fs", *watchdog)}}
				res.EndedBy = "hang"
				writeWorkerOut(*out, &res)
				os.Exit(3)
			}
		}
	}()

	for run := *w; run < *runs; run += *n {
		if time.Since(start).Seconds() > *budget {
			res.EndedBy = "time-budget"
			break
		}
		if *progress != "" {
			// if this process dies (a fatal runtime error in the tree under
			// test cannot be recovered), the coordinator knows where
			os.WriteFile(*progress, []byte(strconv.FormatInt(run, 10)), 0o644)
		}
		ch := newChooser(runSeed(*seed, *prop, run))
		stats.Runs++
		e.Run(ch, func(c any, v *Violation, log []string, info *caseInfo) {
			stats.Cases++
			if info != nil {
				stats.sig(info.Sig, info.Nontrivial)
			}
			if v != nil {
				stats.clause(v.Clause + " VIOLATED")
				cl := v.Class()
				if idx, ok := classes[cl]; ok {
					res.Found[idx].Count++
					return
				}
				raw, _ := json.Marshal(c)
				classes[cl] = len(res.Found)
				res.Found = append(res.Found, Found{Run: run, V: *v, Case: raw, Log: log, Count: 1})
				return
			}
			if len(res.Samples) < 3 && info != nil && info.Nontrivial && stats.Cases%7 == 1 {
				raw, _ := json.Marshal(c)
				res.Samples = append(res.Samples, raw)
			}
		})
		curStart.Store(0)
	}
	res.Stats = stats
	for h := range stats.Sigs {
		res.Sigs = append(res.Sigs, h)
	}
	for h := range stats.NontrivSigs {
		res.NontrivSigs = append(res.NontrivSigs, h)
	}
	sort.Slice(res.Sigs, func(i, j int) bool { return res.Sigs[i] < res.Sigs[j] })
	sort.Slice(res.NontrivSigs, func(i, j int) bool { return res.NontrivSigs[i] < res.NontrivSigs[j] })
	writeWorkerOut(*out, &res)
}

func writeWorkerOut(path string, res *WorkerOut) {
	b, err := json.Marshal(res)
	if err != nil {
		infra("marshal worker result: %v", err)
	}
	if path == "" {
		os.Stdout.Write(b)
		return
	}
	if err := os.WriteFile(path, b, 0o644); err != nil {
		infra("write worker result: %v", err)
	}
}

// guard marks the start of a case evaluation for the watchdog.
func guard(c any) {
	raw, _ := json.Marshal(c)
	curCase.Store(json.RawMessage(raw))
	curStart.Store(time.Now().UnixNano())
	if caseFile != "" {
		os.WriteFile(caseFile, raw, 0o644)
	}
}

// caseFile, when set (command runone), receives every case before it is
// evaluated: if the process dies, the file holds the case that killed it.
var caseFile string

// runoneMain executes one run in this process, leaving a trail.
func runoneMain(args []string) {
	fs := flag.NewFlagSet("runone", flag.ExitOnError)
	prop := fs.String("prop", "", "property id")
	seed := fs.Uint64("seed", 1, "VERIF_SEED")
	run := fs.Int64("run", 0, "run number")
	cf := fs.String("casefile", "", "file receiving each case before it is evaluated")
	fs.Parse(args)
	e := engines[*prop]
	if e == nil {
		infra("no engine for property %q", *prop)
	}
	caseFile = *cf
	ch := newChooser(runSeed(*seed, *prop, *run))
	e.Run(ch, func(c any, v *Violation, log []string, info *caseInfo) {})
	fmt.Println("RUN-COMPLETED")
}

// replaychildMain evaluates the case of a replay file and reports completion.
func replaychildMain(args []string) {
	b, err := os.ReadFile(args[0])
	if err != nil {
		infra("replaychild: %v", err)
	}
	var rf ReplayFile
	if err := json.Unmarshal(b, &rf); err != nil {
		infra("replaychild: %v", err)
	}
	e := engines[rf.Property]
	if e == nil {
		infra("replaychild: no engine")
	}
	e.Check(rf.Case)
	fmt.Println("RUN-COMPLETED")
}

// ---------------------------------------------------------------- digest

// digestMain prints one line per run: a digest of everything the run did
// (tape, cases, verdicts, event logs). Two executions of the same run must
// print the same line whatever GOMAXPROCS or the process is.
func digestMain(args []string) {
	fs := flag.NewFlagSet("digest", flag.ExitOnError)
	prop := fs.String("prop", "", "property id")
	seed := fs.Uint64("seed", 1, "VERIF_SEED")
	from := fs.Int64("from", 0, "first run")
	to := fs.Int64("to", 10, "one past the last run")
	step := fs.Int64("step", 1, "stride")
	fs.Parse(args)
	e := engines[*prop]
	if e == nil {
		infra("no engine for property %q", *prop)
	}
	for run := *from; run < *to; run += *step {
		ch := newChooser(runSeed(*seed, *prop, run))
		h := uint64(1469598103934665603)
		add := func(s string) {
			h = (h ^ strSeed(s)) * 1099511628211
		}
		ncase := 0
		e.Run(ch, func(c any, v *Violation, log []string, info *caseInfo) {
			ncase++
			raw, _ := json.Marshal(c)
			add(string(raw))
			if v != nil {
				add(v.Class())
				add(v.Detail)
			}
			for _, l := range log {
				add(l)
			}
			if info != nil {
				add(info.Sig)
			}
		})
		add(strconv.FormatUint(ch.tape, 16))
		fmt.Printf("%s run=%d cases=%d choices=%d digest=%016x\n", *prop, run, ncase, ch.count, h)
	}
}
