package main

import (
	"hash/fnv"
)

// Rng is SplitMix64. One Rng per run, seeded from (VERIF_SEED, property, tier
// salt, run number); every choice of the run is drawn from it.
type Rng struct{ s uint64 }

func (r *Rng) Next() uint64 {
	r.s += 0x9E3779B97F4A7C15
	z := r.s
	z = (z ^ (z >> 30)) * 0xBF58476D1CE4E5B9
	z = (z ^ (z >> 27)) * 0x94D049BB133111EB
	return z ^ (z >> 31)
}

func mix(vals ...uint64) uint64 {
	r := Rng{0x6A09E667F3BCC909}
	for _, v := range vals {
		r.s ^= v
		r.Next()
		r.s = r.Next()
	}
	return r.Next()
}

func strSeed(s string) uint64 {
	h := fnv.New64a()
	h.Write([]byte(s))
	return h.Sum64()
}

// Chooser is the only source of choices inside a run. It keeps a rolling
// digest of the tape (every (n, value) pair drawn) so that two executions of
// the same run can be compared; it never reads a clock or another source.
type Chooser struct {
	rng   Rng
	count uint64
	tape  uint64
}

func newChooser(seed uint64) *Chooser { return &Chooser{rng: Rng{seed}} }

// Int returns a value in [0, n).
func (c *Chooser) Int(n int) int {
	if n <= 1 {
		c.note(uint64(n), 0)
		return 0
	}
	v := int(c.rng.Next() % uint64(n))
	c.note(uint64(n), uint64(v))
	return v
}

func (c *Chooser) note(n, v uint64) {
	c.count++
	c.tape = (c.tape ^ (n*0x100000001B3 + v + c.count)) * 0x100000001B3
}

// Range returns a value in [lo, hi].
func (c *Chooser) Range(lo, hi int) int { return lo + c.Int(hi-lo+1) }

// Chance is true with probability num/den.
func (c *Chooser) Chance(num, den int) bool { return c.Int(den) < num }

func (c *Chooser) U64() uint64 {
	v := c.rng.Next()
	c.note(0, v)
	return v
}

// Pick chooses an index according to integer weights.
func (c *Chooser) Pick(weights ...int) int {
	t := 0
	for _, w := range weights {
		t += w
	}
	x := c.Int(t)
	for i, w := range weights {
		if x < w {
			return i
		}
		x -= w
	}
	return len(weights) - 1
}

func pickStr(c *Chooser, s []string) string { return s[c.Int(len(s))] }
