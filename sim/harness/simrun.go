package main

import (
	"encoding/base64"
	"encoding/json"
	"fmt"
	"sort"
	"strings"
	"unicode/utf8"

	jdtop "github.com/josephburnett/jd"
	jdv2 "github.com/josephburnett/jd/v2/jd"
	"github.com/josephburnett/jd/v2/verif/simos"
)

// Blob is file or stream content. In replay files it is written as a string
// when it is valid UTF-8 and as base64 otherwise.
type Blob []byte

func (b Blob) MarshalJSON() ([]byte, error) {
	if utf8.Valid(b) {
		return json.Marshal(map[string]string{"s": string(b)})
	}
	return json.Marshal(map[string]string{"b64": base64.StdEncoding.EncodeToString(b)})
}

func (b *Blob) UnmarshalJSON(d []byte) error {
	var m map[string]string
	if err := json.Unmarshal(d, &m); err != nil {
		return err
	}
	if s, ok := m["s"]; ok {
		*b = Blob(s)
		return nil
	}
	x, err := base64.StdEncoding.DecodeString(m["b64"])
	*b = Blob(x)
	return err
}

// File is one file of the initial simulated disk.
type File struct {
	Name string `json:"name"`
	Data Blob   `json:"data"`
}

// StdinSpec says what a process reads on stdin.
type StdinSpec struct {
	From        string `json:"from"`           // "data", "file:<name>" (content of that file when the process starts), "prev" (stdout of the previous process)
	Data        Blob   `json:"data,omitempty"` // for From == "data"
	Plan        []int  `json:"plan,omitempty"` // chunk plan
	EOFWithData bool   `json:"eof_with_data,omitempty"`
	Redirect    bool   `json:"redirect,omitempty"` // stdin is a regular file (shell "<"), not a pipe
	// Consumed: with Redirect, bytes at the start of that file which the
	// parent read before starting jd (`{ read hdr; jd a; } < file`); jd's
	// descriptor 0 continues behind them
	Consumed Blob `json:"consumed,omitempty"`
}

// ProcSpec is one simulated process.
type ProcSpec struct {
	Bin    string        `json:"bin"`  // "v2" (v2/jd) or "top" (top-level binary)
	Argv   []string      `json:"argv"` // arguments after the program name
	Arg0   string        `json:"arg0,omitempty"`
	Stdin  *StdinSpec    `json:"stdin,omitempty"`
	Faults []simos.Fault `json:"faults,omitempty"`
}

// ProcResult is what the simulator observed.
type ProcResult struct {
	Code    int
	Killed  bool
	Runaway bool
	Crash   string
	CrashAt string
	Stack   string
	Stdout  []byte
	Stderr  []byte
	Steps   []simos.StepRec
	Fired   []simos.Fault
	Sched   []string // goroutine releases, in order (trees with goroutines only)
}

// sessionLinks are the symbolic links of the session being set up (set by
// fsFromSession; plain fsFromFiles callers have none).
func fsFromSession(files []File, dirs []string, links [][2]string) *simos.FS {
	fs := fsFromFiles(files, dirs)
	for _, l := range links {
		if l[1] == sizeUnknownMark {
			// an input whose size stat cannot tell (a pipe a writer feeds)
			fs.SizeUnknown[l[0]] = true
			continue
		}
		if l[1] == fifoMark {
			// not a link at all: the name is a named pipe somebody is reading
			fs.Fifos[l[0]] = true
			fs.Files[l[0]] = []byte{}
			continue
		}
		fs.Links[l[0]] = l[1]
	}
	return fs
}

// fifoMark in the target position of a session's link list says that the name
// is a named pipe with a reader attached (`-o >(cmd)`, a FIFO made with mkfifo).
const fifoMark = "|fifo"

// sizeUnknownMark: the name is an input that stat reports as a pipe of size 0
// (`jd <(cmd) b`, a named pipe, a /proc file); its content is in the file list.
const sizeUnknownMark = "|size-unknown"

func fsFromFiles(files []File, dirs []string) *simos.FS {
	fs := simos.NewFS()
	for _, f := range files {
		fs.Files[f.Name] = append([]byte(nil), f.Data...)
	}
	for _, d := range dirs {
		fs.Dirs[d] = true
	}
	return fs
}

// IOCfg is the per-session shape of the simulated I/O.
type IOCfg struct {
	Sector    int // bytes per sector write
	FileChunk int // max bytes per Read of an open regular file (0 = unlimited)
	StdoutTTY bool
	Env       [][2]string
	Clock     simos.ClockPolicy // how simulated time passes for code that reads a clock
	Sched     uint64            // schedule seed: which goroutine runs when (trees with goroutines only)
}

// runProc runs one process on fs (which it may modify).
// harvestClock books what the clock seam saw and puts the steady clock back.
func harvestClock() {
	if simos.ClockStats.Readings > 0 {
		stats.probeN("clock-read-by-code-under-test", simos.ClockStats.Readings)
		simos.ClockStats.Readings = 0
	}
	if simos.ClockStats.Expired > 0 {
		stats.probeN("deadline-or-timer-expired-under-simulated-clock", simos.ClockStats.Expired)
		simos.ClockStats.Expired = 0
	}
	simos.SetClock(simos.ClockPolicy{})
}

func runProc(fs *simos.FS, spec ProcSpec, io IOCfg, prevStdout []byte) ProcResult {
	// the process lives under the session's clock; whatever the harness itself
	// computes afterwards (the reference model) under the steady one
	simos.SetClock(io.Clock)
	defer harvestClock()
	arg0 := spec.Arg0
	if arg0 == "" {
		arg0 = "jd"
	}
	p := &simos.Proc{
		Bin:    spec.Bin,
		Argv:   append([]string{arg0}, spec.Argv...),
		FS:     fs,
		Sector: io.Sector, FileChunk: io.FileChunk, StdoutTTY: io.StdoutTTY,
		Faults: append([]simos.Fault(nil), spec.Faults...),
	}
	if len(io.Env) > 0 {
		p.Env = map[string]string{}
		for _, kv := range io.Env {
			p.Env[kv[0]] = kv[1]
		}
	}
	if s := spec.Stdin; s != nil {
		st := &simos.Stream{Plan: s.Plan, EOFWithData: s.EOFWithData, Redirect: s.Redirect}
		switch {
		case s.From == "data":
			st.Data = s.Data
		case s.From == "prev":
			st.Data = prevStdout
		case strings.HasPrefix(s.From, "file:"):
			st.Data = append([]byte(nil), fs.Files[strings.TrimPrefix(s.From, "file:")]...)
		}
		if s.Redirect && len(s.Consumed) > 0 {
			st.Data = append(append([]byte(nil), s.Consumed...), st.Data...)
			st.Skip = len(s.Consumed)
			st.Reset()
		}
		p.Stdin = st
	}
	run := func() {
		switch spec.Bin {
		case "v2":
			simos.Run(p, "flagv2", jdv2.Main)
		case "top":
			simos.Run(p, "flagtop", jdtop.Main)
		default:
			panic("unknown binary " + spec.Bin)
		}
	}
	var schedTrace []string
	needSched := false
	if simos.TreeHasGoroutines && simos.T != nil {
		// most processes never reach a go statement: try without the
		// scheduler first, on a copy of the file system, and start over under
		// the scheduler at the first go statement
		snapshot := fs.Clone()
		simos.ArmTrip(true)
		run()
		needSched = simos.Tripped()
		simos.ArmTrip(false)
		if needSched {
			fs.RestoreFrom(snapshot)
			q := *p
			fresh := simos.Proc{Bin: q.Bin, Argv: q.Argv, Env: q.Env, FS: fs, Sector: q.Sector, FileChunk: q.FileChunk, StdoutTTY: q.StdoutTTY, Faults: append([]simos.Fault(nil), spec.Faults...)}
			if q.Stdin != nil {
				st := *q.Stdin
				st.Reset()
				fresh.Stdin = &st
			}
			*p = fresh
		}
	}
	if needSched {
		// the tree under test starts goroutines: which of them runs when is
		// decided by the scheduler, from the schedule seed of the case
		r := simos.RunScheduled(mix(io.Sched, uint64(len(spec.Argv)), strSeed(strings.Join(spec.Argv, " "))), run)
		harvestSched()
		schedTrace = r.Trace
		switch {
		case p.Finished():
		case r.Crash != nil:
			p.Finish(*r.Crash, "")
		case r.Deadlock:
			// what the Go runtime prints when no goroutine can ever run again
			p.Finish(simos.CrashPanic{Value: "fatal error: all goroutines are asleep - deadlock!", Stack: "deadlock (main goroutine blocked; last releases: " + strings.Join(lastN(r.Trace, 6), " ") + ")"}, "")
			p.CrashAt = "deadlock"
		default:
			p.Finish(nil, "")
		}
	} else if !(simos.TreeHasGoroutines && simos.T != nil) {
		run()
	}
	stats.Procs++
	stats.Steps += int64(len(p.Steps))
	for _, f := range p.Fired {
		stats.fired(f.Kind)
	}
	return ProcResult{
		Code: p.Code, Killed: p.Killed, Runaway: p.Runaway, Crash: p.Crash, CrashAt: p.CrashAt, Stack: p.Stack,
		Stdout: append([]byte(nil), p.Stdout.Bytes()...), Stderr: append([]byte(nil), p.Stderr.Bytes()...),
		Steps: p.Steps, Fired: p.Fired, Sched: schedTrace,
	}
}

func lastN(s []string, n int) []string {
	if len(s) > n {
		return s[len(s)-n:]
	}
	return s
}

// harvestSched books what the goroutine scheduler did.
func harvestSched() {
	st := &simos.SchedStats
	if st.Runs > 0 {
		stats.probeN("process-or-call-run-under-the-goroutine-scheduler", st.Runs)
	}
	if st.Spawned > 0 {
		stats.probeN("goroutine-started-by-code-under-test", st.Spawned)
	}
	if st.Decisions > 0 {
		stats.probeN("scheduling-decision-with-more-than-one-runnable-goroutine", st.Decisions)
	}
	if st.Deadlocks > 0 {
		stats.probeN("deadlock-detected-by-the-scheduler", st.Deadlocks)
	}
	st.Runs, st.Spawned, st.Decisions, st.Deadlocks = 0, 0, 0, 0
}

// fsDigest renders a file system canonically (names sorted).
func fsDigest(fs *simos.FS) string {
	var b strings.Builder
	for _, n := range fs.Names() {
		fmt.Fprintf(&b, "%s=%x;", n, fnv64(fs.Files[n]))
	}
	return b.String()
}

func fsEqual(a, b *simos.FS) (bool, string) {
	an, bn := a.Names(), b.Names()
	seen := map[string]bool{}
	var names []string
	for _, n := range append(an, bn...) {
		if !seen[n] {
			seen[n] = true
			names = append(names, n)
		}
	}
	sort.Strings(names)
	for _, n := range sortedKeys(a.Links, b.Links) {
		if a.Links[n] != b.Links[n] {
			return false, fmt.Sprintf("symbolic link %q points to %q, expected %q", n, a.Links[n], b.Links[n])
		}
	}
	for _, n := range sortedKeys(boolKeys(a.Fifos), boolKeys(b.Fifos)) {
		if a.Fifos[n] != b.Fifos[n] {
			return false, fmt.Sprintf("named pipe %q: is a pipe %v, expected %v (it was replaced by a regular file)", n, a.Fifos[n], b.Fifos[n])
		}
	}
	for _, n := range names {
		x, okx := a.Files[n]
		y, oky := b.Files[n]
		if okx != oky {
			return false, fmt.Sprintf("file %q exists=%v, expected exists=%v", n, okx, oky)
		}
		if string(x) != string(y) {
			return false, fmt.Sprintf("file %q holds %s, expected %s", n, show(x), show(y))
		}
	}
	return true, ""
}

func fnv64(b []byte) uint64 {
	h := uint64(14695981039346656037)
	for _, c := range b {
		h ^= uint64(c)
		h *= 1099511628211
	}
	return h
}

func show(b []byte) string {
	s := string(b)
	if len(s) > 300 {
		s = s[:300] + fmt.Sprintf("...(%d bytes)", len(b))
	}
	return fmt.Sprintf("%q", s)
}

// eventLog renders the steps of a process for the replay file.
func eventLog(i int, r ProcResult) []string {
	var out []string
	steps := r.Steps
	if len(steps) > 400 {
		out = append(out, fmt.Sprintf("p%d ... %d steps, the last 400 shown", i, len(steps)))
		steps = steps[len(steps)-400:]
	}
	for _, s := range steps {
		l := fmt.Sprintf("p%d #%d %s", i, s.N, s.Kind)
		if s.Arg != "" {
			l += " " + s.Arg
		}
		if s.Result != "" {
			l += " -> " + s.Result
		}
		if s.Fault != "" {
			l += " [fault " + s.Fault + "]"
		}
		out = append(out, l)
	}
	if len(r.Sched) > 0 {
		out = append(out, fmt.Sprintf("p%d schedule: %s", i, strings.Join(lastN(r.Sched, 60), " ")))
	}
	end := fmt.Sprintf("p%d end code=%d", i, r.Code)
	if r.Killed {
		end += " killed"
	}
	if r.Runaway {
		end += " STEP-LIMIT (no termination)"
	}
	if r.Crash != "" {
		end += " CRASH " + r.Crash + " at " + r.CrashAt
	}
	end += fmt.Sprintf(" stdout=%x stderr=%x", fnv64(r.Stdout), fnv64(maskStamp(r.Stderr)))
	return append(out, end)
}

// maskStamp removes log timestamps ("2006/01/02 15:04:05 ") from stderr.
func maskStamp(b []byte) []byte {
	lines := strings.Split(string(b), "\n")
	for i, l := range lines {
		if len(l) >= 20 && l[4] == '/' && l[7] == '/' && l[10] == ' ' && l[13] == ':' && l[16] == ':' && l[19] == ' ' {
			lines[i] = l[20:]
		}
	}
	return []byte(strings.Join(lines, "\n"))
}

func sortedKeys(ms ...map[string]string) []string {
	seen := map[string]bool{}
	var out []string
	for _, m := range ms {
		for k := range m {
			if !seen[k] {
				seen[k] = true
				out = append(out, k)
			}
		}
	}
	sort.Strings(out)
	return out
}

func boolKeys(m map[string]bool) map[string]string {
	out := map[string]string{}
	for k, v := range m {
		if v {
			out[k] = "1"
		}
	}
	return out
}
