package main

import (
	"encoding/json"
	"github.com/josephburnett/jd/v2/verif/simos"
	"strings"
)

func init() {
	engines["C14"] = &Engine{
		Prop: "C14",
		Run: func(ch *Chooser, emit func(c any, v *Violation, log []string, info *caseInfo)) {
			s := genSession14(ch)
			guard(C14Case{S: s, V: Variant{Clause: "base"}})
			base := runSession(s, fsFromSession(s.Files, s.Dirs, s.Links), false, false)
			for _, v := range variants14(ch, s, base) {
				c := C14Case{S: s, V: v}
				guard(c)
				viol, log, info := checkC14(c)
				stats.clause(v.Clause)
				emit(c, viol, log, info)
			}
		},
		Check: func(raw json.RawMessage) (*Violation, []string, error) {
			var c C14Case
			if err := json.Unmarshal(raw, &c); err != nil {
				return nil, nil, err
			}
			v, log, _ := checkC14(c)
			return v, log, nil
		},
		Shrink: func(raw json.RawMessage) []json.RawMessage {
			var c C14Case
			if err := json.Unmarshal(raw, &c); err != nil {
				return nil
			}
			var out []json.RawMessage
			add := func(d C14Case) {
				b, _ := json.Marshal(d)
				out = append(out, b)
			}
			for _, s := range shrinkSession(c.S) {
				d := c
				d.S = s
				if d.V.Proc >= len(s.Procs) {
					continue
				}
				add(d)
			}
			// drop the first process (the variant index shifts)
			if len(c.S.Procs) > 1 && c.V.Proc > 0 {
				d := c
				d.S.Procs = append([]ProcSpec(nil), c.S.Procs[1:]...)
				d.V.Proc--
				add(d)
			}
			if len(c.V.Plan) > 0 {
				d := c
				d.V.Plan = nil
				add(d)
				if len(c.V.Plan) > 1 {
					d.V.Plan = c.V.Plan[:1]
					add(d)
				}
			}
			if c.V.EOFWithData {
				d := c
				d.V.EOFWithData = false
				add(d)
			}
			if c.V.Fault != nil && c.V.Fault.Param > 0 {
				d := c
				f := *c.V.Fault
				f.Param = 0
				d.V.Fault = &f
				add(d)
			}
			return out
		},
	}
}

// shrinkSession returns one-step reductions of a session.
func shrinkSession(s Session) []Session {
	var out []Session
	cp := func() Session {
		d := s
		d.Files = append([]File(nil), s.Files...)
		d.Procs = append([]ProcSpec(nil), s.Procs...)
		d.Dirs = append([]string(nil), s.Dirs...)
		return d
	}
	// drop the last process
	if len(s.Procs) > 1 {
		d := cp()
		d.Procs = d.Procs[:len(d.Procs)-1]
		out = append(out, d)
	}
	if s.Clock.Mode != "" {
		d := cp()
		d.Clock = simos.ClockPolicy{}
		out = append(out, d)
	}
	if s.Sector != 4096 {
		d := cp()
		d.Sector = 4096
		out = append(out, d)
	}
	// drop argv tokens (flags), one token or a flag/value pair at a time
	for i, p := range s.Procs {
		for j := 0; j < len(p.Argv); j++ {
			if !strings.HasPrefix(p.Argv[j], "-") {
				continue
			}
			for _, w := range []int{1, 2} {
				if j+w > len(p.Argv) {
					continue
				}
				d := cp()
				q := p
				q.Argv = append(append([]string(nil), p.Argv[:j]...), p.Argv[j+w:]...)
				d.Procs[i] = q
				out = append(out, d)
			}
		}
		if p.Stdin != nil && (len(p.Stdin.Plan) > 0 || p.Stdin.EOFWithData) {
			d := cp()
			q := p
			st := *p.Stdin
			st.Plan, st.EOFWithData = nil, false
			q.Stdin = &st
			d.Procs[i] = q
			out = append(out, d)
		}
	}
	// shrink file contents
	for i, f := range s.Files {
		for _, t := range shrinkText(string(f.Data), strings.HasSuffix(f.Name, ".yaml")) {
			d := cp()
			d.Files[i] = File{f.Name, Blob(t)}
			out = append(out, d)
		}
	}
	// drop unused files
	for i := range s.Files {
		d := cp()
		d.Files = append(d.Files[:i:i], d.Files[i+1:]...)
		out = append(out, d)
	}
	return out
}

// shrinkText returns smaller variants of a document text. Structured
// reductions when it parses, line and tail deletions otherwise.
func shrinkText(t string, yamlHint bool) []string {
	var out []string
	isY := false
	v, err := parseDoc(t, false)
	if err != nil || v == nil {
		if v2, err2 := parseDoc(t, true); err2 == nil && v2 != nil && (v2.K == 'o' || v2.K == 'a') {
			v, err, isY = v2, nil, true
		}
	}
	if err == nil && v != nil {
		for _, w := range shrinkVal(v) {
			if isY || yamlHint && strings.Contains(t, "\n") && !strings.HasPrefix(strings.TrimSpace(t), "{") && !strings.HasPrefix(strings.TrimSpace(t), "[") {
				out = append(out, w.YAML())
			} else {
				out = append(out, w.JSON(0))
			}
		}
		if len(out) > 0 {
			return out
		}
	}
	lines := strings.Split(t, "\n")
	if len(lines) > 1 {
		for i := range lines {
			l := append(append([]string(nil), lines[:i]...), lines[i+1:]...)
			out = append(out, strings.Join(l, "\n"))
		}
	}
	if len(t) > 0 {
		out = append(out, t[:len(t)/2], t[:len(t)-1])
	}
	return out
}

// shrinkVal lists one-step reductions of a document tree.
func shrinkVal(v *Val) []*Val {
	var out []*Val
	// replace the root by one of its children
	switch v.K {
	case 'o':
		out = append(out, v.Vals...)
	case 'a':
		out = append(out, v.Elems...)
	}
	var walk func(n *Val, rebuild func(*Val) *Val)
	walk = func(n *Val, rebuild func(*Val) *Val) {
		switch n.K {
		case 'o':
			if len(out) > 400 {
				return // enough candidates for one step
			}
			for i := range n.Keys {
				i := i
				c := n.clone()
				c.Keys = append(c.Keys[:i:i], c.Keys[i+1:]...)
				c.Vals = append(c.Vals[:i:i], c.Vals[i+1:]...)
				out = append(out, rebuild(c))
				if n.Vals[i].K == 'o' || n.Vals[i].K == 'a' {
					c2 := n.clone()
					c2.Vals[i] = vn(0)
					out = append(out, rebuild(c2))
				}
				walk(n.Vals[i], func(x *Val) *Val {
					c3 := n.clone()
					c3.Vals[i] = x
					return rebuild(c3)
				})
			}
		case 'a':
			if len(n.Elems) > 32 {
				// a long array: halves and quarters instead of one candidate
				// per element (each candidate is a clone of the whole document)
				m := len(n.Elems)
				for _, cut := range [][2]int{{0, m / 2}, {m / 2, m}, {0, m / 4}, {m - m/4, m}, {m / 4, m - m/4}} {
					c := n.clone()
					c.Elems = append(c.Elems[:cut[0]:cut[0]], c.Elems[cut[1]:]...)
					out = append(out, rebuild(c))
				}
				return
			}
			for i := range n.Elems {
				i := i
				c := n.clone()
				c.Elems = append(c.Elems[:i:i], c.Elems[i+1:]...)
				out = append(out, rebuild(c))
				if n.Elems[i].K == 'o' || n.Elems[i].K == 'a' {
					c2 := n.clone()
					c2.Elems[i] = vn(0)
					out = append(out, rebuild(c2))
				}
				walk(n.Elems[i], func(x *Val) *Val {
					c3 := n.clone()
					c3.Elems[i] = x
					return rebuild(c3)
				})
			}
		case 's':
			if len(n.S) > 1 {
				out = append(out, rebuild(vs("a")))
			}
		}
	}
	walk(v, func(x *Val) *Val { return x })
	return out
}
