package main

import (
	"fmt"
	"reflect"
	"sort"
	"strconv"
	"strings"
	"unsafe"
)

// The reflection walker copies and fingerprints jd's values (documents, diffs,
// paths) without calling any jd code, so that "did this call change its
// arguments" is judged independently of the library under test. It works on
// unexported types; unexported struct fields (a cache added by a changed tree,
// say) are reached through unsafe so that they are copied and fingerprinted
// too.

func deepCopyAny(x any) any {
	if x == nil {
		return nil
	}
	v := reflect.ValueOf(x)
	return deepCopy(v).Interface()
}

func addressable(v reflect.Value) reflect.Value {
	if v.CanAddr() {
		return v
	}
	c := reflect.New(v.Type()).Elem()
	c.Set(v)
	return c
}

func fieldRW(s reflect.Value, i int) reflect.Value {
	f := s.Field(i)
	if f.CanInterface() {
		return f
	}
	return reflect.NewAt(f.Type(), unsafe.Pointer(f.UnsafeAddr())).Elem()
}

func deepCopy(v reflect.Value) reflect.Value {
	switch v.Kind() {
	case reflect.Interface:
		if v.IsNil() {
			return reflect.Zero(v.Type())
		}
		n := reflect.New(v.Type()).Elem()
		n.Set(deepCopy(v.Elem()))
		return n
	case reflect.Pointer:
		if v.IsNil() {
			return reflect.Zero(v.Type())
		}
		n := reflect.New(v.Type().Elem())
		n.Elem().Set(deepCopy(v.Elem()))
		return n
	case reflect.Map:
		if v.IsNil() {
			return reflect.Zero(v.Type())
		}
		n := reflect.MakeMapWithSize(v.Type(), v.Len())
		it := v.MapRange()
		for it.Next() {
			n.SetMapIndex(deepCopy(it.Key()), deepCopy(it.Value()))
		}
		return n
	case reflect.Slice:
		if v.IsNil() {
			return reflect.Zero(v.Type())
		}
		// capacity == length: no spare capacity shared with anything
		n := reflect.MakeSlice(v.Type(), v.Len(), v.Len())
		for i := 0; i < v.Len(); i++ {
			n.Index(i).Set(deepCopy(v.Index(i)))
		}
		return n
	case reflect.Array:
		n := reflect.New(v.Type()).Elem()
		for i := 0; i < v.Len(); i++ {
			n.Index(i).Set(deepCopy(v.Index(i)))
		}
		return n
	case reflect.Struct:
		src := addressable(v)
		n := reflect.New(v.Type()).Elem()
		for i := 0; i < v.NumField(); i++ {
			fieldRW(n, i).Set(deepCopy(fieldRW(src, i)))
		}
		return n
	default:
		return v
	}
}

// fingerprint renders a value completely and canonically: type names, map
// entries sorted by key fingerprint, slice order and nil-ness preserved.
func fingerprint(x any) string {
	var b strings.Builder
	if x == nil {
		return "<nil>"
	}
	fp(&b, reflect.ValueOf(x))
	return b.String()
}

func fp(b *strings.Builder, v reflect.Value) {
	switch v.Kind() {
	case reflect.Interface:
		if v.IsNil() {
			b.WriteString("<nil>")
			return
		}
		fp(b, v.Elem())
	case reflect.Pointer:
		if v.IsNil() {
			b.WriteString("<nilptr>")
			return
		}
		b.WriteByte('&')
		fp(b, v.Elem())
	case reflect.Map:
		b.WriteString(v.Type().String())
		if v.IsNil() {
			b.WriteString("(nil)")
			return
		}
		type kv struct{ k, v string }
		var ents []kv
		it := v.MapRange()
		for it.Next() {
			var kb, vb strings.Builder
			fp(&kb, it.Key())
			fp(&vb, it.Value())
			ents = append(ents, kv{kb.String(), vb.String()})
		}
		sort.Slice(ents, func(i, j int) bool { return ents[i].k < ents[j].k })
		b.WriteByte('{')
		for _, e := range ents {
			b.WriteString(e.k)
			b.WriteByte(':')
			b.WriteString(e.v)
			b.WriteByte(',')
		}
		b.WriteByte('}')
	case reflect.Slice:
		b.WriteString(v.Type().String())
		if v.Type().Elem().Kind() == reflect.Uint8 {
			// jd's null is a []byte whose content never matters
			fmt.Fprintf(b, "(%d bytes)", v.Len())
			return
		}
		if v.IsNil() {
			b.WriteString("(nil)")
			return
		}
		b.WriteByte('[')
		for i := 0; i < v.Len(); i++ {
			fp(b, v.Index(i))
			b.WriteByte(',')
		}
		b.WriteByte(']')
	case reflect.Array:
		b.WriteString(v.Type().String())
		b.WriteByte('[')
		for i := 0; i < v.Len(); i++ {
			fp(b, v.Index(i))
			b.WriteByte(',')
		}
		b.WriteByte(']')
	case reflect.Struct:
		src := addressable(v)
		b.WriteString(v.Type().String())
		b.WriteByte('{')
		for i := 0; i < v.NumField(); i++ {
			sf := v.Type().Field(i)
			if sf.PkgPath != "" && !structural(sf.Type) {
				// an unexported scalar (a cached hash, a "computed" flag, a
				// memoised rendering) is representation, not value: a correct
				// cache must not count as "the call changed its argument".
				// What it does to later outputs is judged by invariants 1 and 3.
				continue
			}
			b.WriteString(sf.Name)
			b.WriteByte('=')
			fp(b, fieldRW(src, i))
			b.WriteByte(',')
		}
		b.WriteByte('}')
	case reflect.String:
		b.WriteString(v.Type().String())
		b.WriteByte('(')
		b.WriteString(strconv.Quote(v.String()))
		b.WriteByte(')')
	case reflect.Float32, reflect.Float64:
		b.WriteString(v.Type().String())
		b.WriteByte('(')
		b.WriteString(strconv.FormatFloat(v.Float(), 'g', -1, 64))
		b.WriteByte(')')
	case reflect.Bool:
		b.WriteString(v.Type().String())
		fmt.Fprintf(b, "(%v)", v.Bool())
	case reflect.Int, reflect.Int8, reflect.Int16, reflect.Int32, reflect.Int64:
		b.WriteString(v.Type().String())
		fmt.Fprintf(b, "(%d)", v.Int())
	case reflect.Uint, reflect.Uint8, reflect.Uint16, reflect.Uint32, reflect.Uint64, reflect.Uintptr:
		b.WriteString(v.Type().String())
		fmt.Fprintf(b, "(%d)", v.Uint())
	default:
		fmt.Fprintf(b, "%s(?)", v.Type().String())
	}
}

// structural reports whether values of type t can hold document structure
// (members, elements, children) as opposed to a scalar.
func structural(t reflect.Type) bool {
	switch t.Kind() {
	case reflect.Map, reflect.Interface, reflect.Struct:
		return true
	case reflect.Slice:
		return t.Elem().Kind() != reflect.Uint8
	case reflect.Pointer:
		return structural(t.Elem())
	case reflect.Array:
		return structural(t.Elem())
	}
	return false
}
