package main

import (
	"bytes"
	"encoding/json"
	"fmt"
	"math"
	"sort"
	"strconv"
	"strings"

	yaml "gopkg.in/yaml.v2"
)

// Val is the harness's own document tree. Objects keep their key order so that
// emitted text can vary it; nothing in the harness ranges over a Go map.
type Val struct {
	K     byte // 'o' object, 'a' array, 's' string, 'n' number, 'b' bool, 'z' null
	Keys  []string
	Vals  []*Val
	Elems []*Val
	S     string
	N     float64
	B     bool
	// RawKeys[i]: emit Keys[i] unquoted in YAML, i.e. as whatever scalar type
	// YAML resolves it to (1, true, ~): a mapping key that is not a string
	RawKeys []bool
}

func vs(s string) *Val  { return &Val{K: 's', S: s} }
func vn(n float64) *Val { return &Val{K: 'n', N: n} }

func (v *Val) clone() *Val {
	if v == nil {
		return nil
	}
	c := *v
	c.Keys = append([]string(nil), v.Keys...)
	c.RawKeys = append([]bool(nil), v.RawKeys...)
	c.Vals = make([]*Val, len(v.Vals))
	for i, x := range v.Vals {
		c.Vals[i] = x.clone()
	}
	c.Elems = make([]*Val, len(v.Elems))
	for i, x := range v.Elems {
		c.Elems[i] = x.clone()
	}
	return &c
}

func (v *Val) get(k string) (*Val, bool) {
	for i, kk := range v.Keys {
		if kk == k {
			return v.Vals[i], true
		}
	}
	return nil, false
}

func (v *Val) set(k string, x *Val) {
	for i, kk := range v.Keys {
		if kk == k {
			v.Vals[i] = x
			return
		}
	}
	v.Keys = append(v.Keys, k)
	v.Vals = append(v.Vals, x)
}

func (v *Val) del(k string) {
	for i, kk := range v.Keys {
		if kk == k {
			v.Keys = append(v.Keys[:i:i], v.Keys[i+1:]...)
			v.Vals = append(v.Vals[:i:i], v.Vals[i+1:]...)
			return
		}
	}
}

func jsonStr(s string) string {
	var b bytes.Buffer
	e := json.NewEncoder(&b)
	e.SetEscapeHTML(false)
	_ = e.Encode(s)
	out := strings.TrimSuffix(b.String(), "\n")
	// DEL, the C1 controls (NEL among them), the byte order mark and the
	// non-characters are written as escapes: the same JSON string, and the only
	// way such a character survives a YAML reader
	if strings.ContainsAny(out, "\u007f\u0080\u0081\u0082\u0083\u0084\u0085\u0086\u0087\u0088\u0089\u008a\u008b\u008c\u008d\u008e\u008f\u0090\u0091\u0092\u0093\u0094\u0095\u0096\u0097\u0098\u0099\u009a\u009b\u009c\u009d\u009e\u009f\ufeff\ufffe\uffff") {
		var sb strings.Builder
		for _, r := range out {
			if r == 0x7f || r >= 0x80 && r <= 0x9f || r == 0xfeff || r == 0xfffe || r == 0xffff {
				fmt.Fprintf(&sb, "\\u%04x", r)
			} else {
				sb.WriteRune(r)
			}
		}
		out = sb.String()
	}
	return out
}

func jsonNum(f float64) string {
	b, err := json.Marshal(f)
	if err != nil {
		return "0"
	}
	return string(b)
}

// JSON renders v; style 0 compact, 1 spaced, 2 indented.
func (v *Val) JSON(style int) string {
	var b strings.Builder
	v.writeJSON(&b, style, 0)
	return b.String()
}

func (v *Val) writeJSON(b *strings.Builder, style, depth int) {
	nl := func(d int) {
		if style == 2 {
			b.WriteByte('\n')
			for i := 0; i < d; i++ {
				b.WriteString("  ")
			}
		}
	}
	switch v.K {
	case 'o':
		b.WriteByte('{')
		for i, k := range v.Keys {
			if i > 0 {
				b.WriteByte(',')
				if style == 1 {
					b.WriteByte(' ')
				}
			}
			nl(depth + 1)
			b.WriteString(jsonStr(k))
			b.WriteByte(':')
			if style > 0 {
				b.WriteByte(' ')
			}
			v.Vals[i].writeJSON(b, style, depth+1)
		}
		if len(v.Keys) > 0 {
			nl(depth)
		}
		b.WriteByte('}')
	case 'a':
		b.WriteByte('[')
		for i, e := range v.Elems {
			if i > 0 {
				b.WriteByte(',')
				if style == 1 {
					b.WriteByte(' ')
				}
			}
			nl(depth + 1)
			e.writeJSON(b, style, depth+1)
		}
		if len(v.Elems) > 0 {
			nl(depth)
		}
		b.WriteByte(']')
	case 's':
		b.WriteString(jsonStr(v.S))
	case 'n':
		b.WriteString(jsonNum(v.N))
	case 'b':
		if v.B {
			b.WriteString("true")
		} else {
			b.WriteString("false")
		}
	default:
		b.WriteString("null")
	}
}

// YAML renders v in block style, written by the harness (not by jd). Strings
// and keys are always double-quoted so no scalar is re-typed by the reader.
func (v *Val) YAML() string {
	var b strings.Builder
	v.writeYAML(&b, 0, false)
	return b.String()
}

func (v *Val) writeYAML(b *strings.Builder, depth int, inline bool) {
	ind := strings.Repeat("  ", depth)
	switch v.K {
	case 'o':
		if len(v.Keys) == 0 {
			b.WriteString("{}\n")
			return
		}
		if inline {
			b.WriteByte('\n')
		}
		for i, k := range v.Keys {
			b.WriteString(ind)
			if i < len(v.RawKeys) && v.RawKeys[i] {
				b.WriteString(k)
			} else {
				b.WriteString(jsonStr(k))
			}
			b.WriteString(": ")
			v.Vals[i].writeYAML(b, depth+1, true)
		}
	case 'a':
		if len(v.Elems) == 0 {
			b.WriteString("[]\n")
			return
		}
		if inline {
			b.WriteByte('\n')
		}
		for _, e := range v.Elems {
			b.WriteString(ind)
			b.WriteString("- ")
			if e.K == 'o' && len(e.Keys) > 0 || e.K == 'a' && len(e.Elems) > 0 {
				// nested block collection: put it on following lines
				e.writeYAML(b, depth+1, true)
			} else {
				e.writeYAML(b, depth+1, true)
			}
		}
	case 's':
		if blockScalarOK(v.S) {
			// literal block scalar, keep-chomping off: the value ends with
			// exactly one newline
			b.WriteString("|\n")
			for _, l := range strings.Split(strings.TrimSuffix(v.S, "\n"), "\n") {
				b.WriteString(ind)
				b.WriteString("  ")
				b.WriteString(l)
				b.WriteByte('\n')
			}
			return
		}
		b.WriteString(jsonStr(v.S))
		b.WriteByte('\n')
	case 'n':
		switch {
		case math.IsInf(v.N, 1):
			b.WriteString(".inf")
		case math.IsInf(v.N, -1):
			b.WriteString("-.inf")
		case math.IsNaN(v.N):
			b.WriteString(".nan")
		case math.Abs(v.N) >= 9.2e18 && v.N == math.Trunc(v.N) && v.N != 18446744073709551615:
			// (the largest uint64 stays a bare integer: YAML readers hand it
			// over as an unsigned number, which jd refuses)
			// beyond int64 a bare integer is a uint64 (or nothing) to YAML
			// readers; written with an exponent it is a float
			b.WriteString(strconv.FormatFloat(v.N, 'e', -1, 64))
		default:
			b.WriteString(jsonNum(v.N))
		}
		b.WriteByte('\n')
	case 'b':
		if v.B {
			b.WriteString("true\n")
		} else {
			b.WriteString("false\n")
		}
	default:
		b.WriteString("null\n")
	}
}

// fromAny converts the result of encoding/json or yaml.v2 decoding.
func fromAny(x any) (*Val, error) {
	switch t := x.(type) {
	case nil:
		return &Val{K: 'z'}, nil
	case bool:
		return &Val{K: 'b', B: t}, nil
	case float64:
		return vn(t), nil
	case int:
		return vn(float64(t)), nil
	case int64:
		return vn(float64(t)), nil
	case uint64:
		return vn(float64(t)), nil
	case string:
		return vs(t), nil
	case []any:
		v := &Val{K: 'a'}
		for _, e := range t {
			c, err := fromAny(e)
			if err != nil {
				return nil, err
			}
			v.Elems = append(v.Elems, c)
		}
		return v, nil
	case map[string]any:
		keys := make([]string, 0, len(t))
		for k := range t {
			keys = append(keys, k)
		}
		sort.Strings(keys)
		v := &Val{K: 'o'}
		for _, k := range keys {
			c, err := fromAny(t[k])
			if err != nil {
				return nil, err
			}
			v.Keys = append(v.Keys, k)
			v.Vals = append(v.Vals, c)
		}
		return v, nil
	case map[any]any:
		m := map[string]any{}
		for k, e := range t {
			s, ok := k.(string)
			if !ok {
				return nil, fmt.Errorf("non-string key %T", k)
			}
			m[s] = e
		}
		return fromAny(m)
	}
	return nil, fmt.Errorf("unsupported %T", x)
}

// parseDoc parses text the way an independent consumer would. An empty (or
// blank) text is the void document, reported as (nil, nil).
func parseDoc(text string, isYAML bool) (*Val, error) {
	if strings.TrimSpace(text) == "" {
		return nil, nil
	}
	var x any
	if isYAML {
		if err := yaml.Unmarshal([]byte(text), &x); err != nil {
			return nil, err
		}
	} else {
		// Unmarshal, not a Decoder: a document is the whole text, and anything
		// after a complete value makes it not a document
		if err := json.Unmarshal([]byte(text), &x); err != nil {
			return nil, err
		}
	}
	return fromAny(x)
}

// ---------------------------------------------------------------- comparator

// cmpMode is how the independent comparator reads arrays.
type cmpMode struct {
	Arrays string  // "list", "set", "mset"
	Eps    float64 // numbers within eps are equal (list mode only)
}

// equalVals is the harness's own notion of document equality, written from
// the README's description of the array readings, not from jd's code.
func equalVals(x, y *Val, m cmpMode) bool {
	if x == nil || y == nil {
		return x == nil && y == nil
	}
	if x.K != y.K {
		return false
	}
	switch x.K {
	case 'z':
		return true
	case 'b':
		return x.B == y.B
	case 's':
		return x.S == y.S
	case 'n':
		if m.Eps > 0 {
			return math.Abs(x.N-y.N) <= m.Eps
		}
		return x.N == y.N
	case 'o':
		if len(x.Keys) != len(y.Keys) {
			return false
		}
		for i, k := range x.Keys {
			w, ok := y.get(k)
			if !ok || !equalVals(x.Vals[i], w, m) {
				return false
			}
		}
		return true
	case 'a':
		switch m.Arrays {
		case "set":
			for _, e := range x.Elems {
				if !containsVal(y.Elems, e, m) {
					return false
				}
			}
			for _, e := range y.Elems {
				if !containsVal(x.Elems, e, m) {
					return false
				}
			}
			return true
		case "mset":
			if len(x.Elems) != len(y.Elems) {
				return false
			}
			used := make([]bool, len(y.Elems))
		outer:
			for _, e := range x.Elems {
				for j, f := range y.Elems {
					if !used[j] && equalVals(e, f, m) {
						used[j] = true
						continue outer
					}
				}
				return false
			}
			return true
		default:
			if len(x.Elems) != len(y.Elems) {
				return false
			}
			for i := range x.Elems {
				if !equalVals(x.Elems[i], y.Elems[i], m) {
					return false
				}
			}
			return true
		}
	}
	return false
}

func containsVal(l []*Val, e *Val, m cmpMode) bool {
	for _, f := range l {
		if equalVals(e, f, m) {
			return true
		}
	}
	return false
}

func (v *Val) hasNull() bool {
	switch v.K {
	case 'z':
		return true
	case 'o':
		for _, x := range v.Vals {
			if x.hasNull() {
				return true
			}
		}
	case 'a':
		for _, x := range v.Elems {
			if x.hasNull() {
				return true
			}
		}
	}
	return false
}

// ---------------------------------------------------------------- generator

var (
	plainKeys   = []string{"a", "b", "c", "d", "id", "name", "x", "y"}
	awkwardKeys = []string{"", "a/b", "~t", "0", "-", "ü", "k e", "a~1b", "1e3", "true", "null", "a.b", "\"q\"", "<<",
		// keys that differ only by zero padding, or that order differently as numbers and as strings
		"7", "07", "007", "10", "6x", "1.1", "1.01", "v7", "v07", "9223372036854775808",
		// control characters and escape sequences in a key
		"k\u0001", "esc\u001b[0m", "del\u007f", "vt\u000b", "\U0001F9FF"}
	plainStrs   = []string{"a", "b", "c", "foo", "bar", "x y", "50%"}
	awkwardStrs = []string{"the quick brown fox jumps over the lazy dog and keeps on running far beyond the eightieth column of the page", "90%", "%s %d %v", "100%!", "line one\nline two\n", "tail\n", strings.Repeat("日本語のテキスト", 5), strings.Repeat("Привет мир ", 4), strings.Repeat("é", 70), "", "\"", "\\", "\n", "\t", "\u0001", "é", "日本", "😀", "<>&", "a\nb", "true", "1", "1e3", "~", "null", "- x", "a: b", "#", " lead", "trail ", "@ [", "+ 1", "^ {}", "{\"html\":\"\\u003cb\\u003e\"}", "a\\u0026b", "\\u003c", "next\u0085line", "del\u007f", "\u2028sep", "c1\u009f", "\ufffe", "bom\ufeff"}
	symbols     = []float64{1, 2, 3}
)

// GenCfg tunes one lineage (swarm style: chosen per run).
type GenCfg struct {
	MaxDepth   int
	MaxKids    int
	Awkward    int  // per-mille chance of awkward keys/strings
	Nulls      bool // allow null
	KeyedArr   bool // arrays of objects carrying "id"
	UniqueIDs  bool // ids unique inside one array
	SymArrays  bool // arrays over a 3-symbol alphabet
	Fractions  bool
	Big        bool // pad to >= 10 KiB
	Huge       bool // one sub-document above 64 KiB (a single line of a native diff when it is removed)
	NumLikeKey bool // allow keys that look like numbers / "-"
	YAMLFloats bool // allow .inf / .nan (only meaningful for YAML carriers)
	YAMLKeys   bool // allow mapping keys that are not strings (1, true, ~): YAML only
}

func genCfg(c *Chooser) GenCfg {
	return GenCfg{
		MaxDepth:   c.Range(1, 4),
		MaxKids:    c.Range(1, 6),
		Awkward:    []int{0, 0, 30, 150, 400}[c.Int(5)],
		Nulls:      c.Chance(1, 3),
		KeyedArr:   c.Chance(1, 2),
		UniqueIDs:  true,
		SymArrays:  c.Chance(2, 3),
		Fractions:  c.Chance(1, 3),
		Big:        c.Chance(1, 40),
		NumLikeKey: c.Chance(1, 6),
	}
}

func genKey(c *Chooser, g GenCfg) string {
	if c.Int(1000) < g.Awkward {
		k := pickStr(c, awkwardKeys)
		if !g.NumLikeKey && (k == "0" || k == "-" || k == "1e3" || k == "7" || k == "07" || k == "007" || k == "10" || k == "9223372036854775808") {
			return "k" + k
		}
		return k
	}
	return pickStr(c, plainKeys)
}

func genScalar(c *Chooser, g GenCfg) *Val {
	switch c.Pick(4, 4, 2, 1) {
	case 0:
		if g.YAMLFloats && c.Chance(1, 6) {
			return vn([]float64{math.Inf(1), math.Inf(-1), math.NaN()}[c.Int(3)])
		}
		if g.Fractions && c.Chance(1, 3) {
			return vn([]float64{0.5, 1.25, -2.75, 1e-7, 3.0000001, 1e21, -0.1, 18446744073709551615, 9.3e18, -1e19, 4294967296, 1e15 + 0.5}[c.Int(12)])
		}
		return vn(float64(c.Range(-2, 9)))
	case 1:
		if c.Int(1000) < g.Awkward {
			if c.Chance(1, 120) {
				// a text just above a thousand characters (a certificate, a log
				// excerpt); not longer: rendering a string replacement runs a
				// character LCS that is quadratic in time and memory
				unit := []string{"ab", "lorem ipsum ", "é", "1.0."}[c.Int(4)]
				n := len([]rune(unit))
				return vs(strings.Repeat(unit, (1030+c.Int(120))/n+1))
			}
			return vs(pickStr(c, awkwardStrs))
		}
		return vs(pickStr(c, plainStrs))
	case 2:
		return &Val{K: 'b', B: c.Chance(1, 2)}
	default:
		if g.Nulls {
			return &Val{K: 'z'}
		}
		return vs("n")
	}
}

func genVal(c *Chooser, g GenCfg, depth int) *Val {
	if depth >= g.MaxDepth || c.Chance(1, 4) {
		return genScalar(c, g)
	}
	switch c.Pick(5, 3, 2, 2) {
	case 0: // object
		v := &Val{K: 'o'}
		n := c.Range(0, g.MaxKids)
		for i := 0; i < n; i++ {
			k := genKey(c, g)
			if _, dup := v.get(k); dup {
				continue
			}
			v.set(k, genVal(c, g, depth+1))
		}
		if g.YAMLKeys && c.Chance(1, 3) {
			v.RawKeys = make([]bool, len(v.Keys))
			v.Keys = append(v.Keys, []string{"7", "true", "~", "2.5", "null"}[c.Int(5)])
			v.Vals = append(v.Vals, genScalar(c, g))
			v.RawKeys = append(v.RawKeys, true)
		}
		return v
	case 1: // general array
		v := &Val{K: 'a'}
		n := c.Range(0, g.MaxKids)
		for i := 0; i < n; i++ {
			v.Elems = append(v.Elems, genVal(c, g, depth+1))
		}
		if c.Chance(1, 6) {
			// a pair of members that are easily confused with one another:
			// empty containers, the empty string, zero, false, "0"
			pairs := [][2]*Val{{{K: 'a'}, vs("")}, {{K: 'a'}, {K: 'o'}}, {{K: 'o'}, vs("")}, {vn(0), vs("0")}, {{K: 'b'}, vn(0)}, {{K: 'z'}, vs("")}}
			pr := pairs[c.Int(len(pairs))]
			for _, m := range pr {
				if m.K == 'z' && !g.Nulls {
					continue
				}
				v.Elems = append(v.Elems, m.clone())
			}
		}
		return v
	case 2: // array over a small alphabet: repeats and reorderings happen
		v := &Val{K: 'a'}
		if !g.SymArrays {
			return genScalar(c, g)
		}
		n := c.Range(0, 7)
		for i := 0; i < n; i++ {
			v.Elems = append(v.Elems, vn(symbols[c.Int(3)]))
		}
		return v
	default: // array of objects carrying an id
		if !g.KeyedArr {
			return genScalar(c, g)
		}
		v := &Val{K: 'a'}
		n := c.Range(0, 4)
		idKind := c.Pick(6, 2, 1, 1) // number, string, array, object
		for i := 0; i < n; i++ {
			o := &Val{K: 'o'}
			id := i
			if !g.UniqueIDs {
				id = c.Int(3)
			}
			o.set("id", idVal(idKind, id))
			m := c.Range(0, 3)
			for j := 0; j < m; j++ {
				k := pickStr(c, plainKeys[:4])
				o.set(k, genValNoKeyed(c, g, depth+2))
			}
			v.Elems = append(v.Elems, o)
		}
		return v
	}
}

func genValNoKeyed(c *Chooser, g GenCfg, depth int) *Val {
	g.KeyedArr = false
	return genVal(c, g, depth)
}

func genDoc(c *Chooser, g GenCfg) *Val {
	var v *Val
	switch c.Pick(12, 3, 1) {
	case 0:
		v = &Val{K: 'o'}
		n := c.Range(1, g.MaxKids+1)
		for i := 0; i < n; i++ {
			v.set(genKey(c, g), genVal(c, g, 1))
		}
	case 1:
		v = &Val{K: 'a'}
		n := c.Range(0, g.MaxKids+1)
		for i := 0; i < n; i++ {
			v.Elems = append(v.Elems, genVal(c, g, 1))
		}
	default:
		v = genScalar(c, g)
	}
	if g.Huge && v.K == 'o' {
		// never a string: rendering a string-to-string replacement runs an
		// O(n*m) character LCS, a performance cliff the simulator is not about
		pad := &Val{K: 'a'}
		for i := 0; i < 8000; i++ {
			pad.Elems = append(pad.Elems, vs("huge-"+strconv.Itoa(i%91)))
		}
		v.set("huge", pad)
	}
	if g.Big && v.K == 'o' {
		pad := &Val{K: 'a'}
		for i := 0; i < 700; i++ {
			pad.Elems = append(pad.Elems, vs("padding-"+strconv.Itoa(i%37)))
		}
		v.set("pad", pad)
	}
	return v
}

// containers lists every container node of v (pre-order).
func containers(v *Val, out []*Val) []*Val {
	switch v.K {
	case 'o':
		out = append(out, v)
		for _, x := range v.Vals {
			out = containers(x, out)
		}
	case 'a':
		out = append(out, v)
		for _, x := range v.Elems {
			out = containers(x, out)
		}
	}
	return out
}

// edit applies one random edit to a clone of v and returns it.
func edit(c *Chooser, g GenCfg, v *Val) *Val {
	v = v.clone()
	cs := editable(v, g.UniqueIDs, nil)
	if len(cs) == 0 {
		if c.Chance(1, 2) {
			return genScalar(c, g)
		}
		return genDoc(c, g)
	}
	n := cs[c.Int(len(cs))]
	if n.K == 'o' {
		switch c.Pick(3, 3, 3, 1, 2, 1) {
		case 5: // a family of related keys arrives at once
			fams := [][]string{{"7", "07", "10", "6x"}, {"1.1", "1.01", "1.001"}, {"v7", "v07", "v10"}, {"k07", "k10", "k1e3"}, {"item2", "item10", "item1"}, {"a", "B", "_"}, {"9223372036854775808", "5", "92"}}
			fam := fams[c.Int(len(fams))]
			if !g.NumLikeKey && (fam[0] == "7" || fam[0] == "9223372036854775808") {
				fam = fams[3]
			}
			for _, k := range fam {
				n.set(k, genScalar(c, g))
			}
		case 4: // two keys exchange their values
			if len(n.Keys) >= 2 {
				i, j := c.Int(len(n.Keys)), c.Int(len(n.Keys))
				if (n.Keys[i] != "id" && n.Keys[j] != "id") || !g.UniqueIDs {
					n.Vals[i], n.Vals[j] = n.Vals[j], n.Vals[i]
				}
			}
		case 0: // add key
			n.set(genKey(c, g), genVal(c, g, g.MaxDepth-1))
		case 1: // remove key
			if len(n.Keys) > 0 {
				k := n.Keys[c.Int(len(n.Keys))]
				if k != "id" || !g.UniqueIDs {
					n.del(k)
				}
			}
		case 2: // change value
			if len(n.Keys) > 0 {
				i := c.Int(len(n.Keys))
				if n.Keys[i] != "id" || !g.UniqueIDs {
					if old := n.Vals[i]; old.K == 's' && len(old.S) > 0 && c.Chance(1, 2) {
						// a text grows at its end (or loses its last character)
						r := []rune(old.S)
						switch c.Int(3) {
						case 0:
							n.Vals[i] = vs(old.S + string(r[len(r)-1]))
						case 1:
							n.Vals[i] = vs(old.S + ".0")
						default:
							n.Vals[i] = vs(string(r[:len(r)-1]))
						}
					} else {
						n.Vals[i] = genVal(c, g, g.MaxDepth-1)
					}
				}
			}
		default: // change the type of a value
			if len(n.Keys) > 0 {
				i := c.Int(len(n.Keys))
				if n.Keys[i] != "id" || !g.UniqueIDs {
					switch n.Vals[i].K {
					case 'o':
						n.Vals[i] = &Val{K: 'a'}
					case 'a':
						n.Vals[i] = &Val{K: 'o'}
					default:
						n.Vals[i] = &Val{K: 'o', Keys: []string{"v"}, Vals: []*Val{n.Vals[i]}}
					}
				}
			}
		}
		return v
	}
	// array
	keyed := len(n.Elems) > 0
	for _, e := range n.Elems {
		if e.K != 'o' {
			keyed = false
		} else if _, ok := e.get("id"); !ok {
			keyed = false
		}
	}
	fresh := func() *Val {
		if keyed {
			o := &Val{K: 'o'}
			max := 0.0
			for _, e := range n.Elems {
				if id, _ := e.get("id"); id != nil && id.N >= max {
					max = id.N + 1
				}
			}
			o.set("id", idLike(n.Elems, max))
			if c.Chance(1, 2) {
				o.set(pickStr(c, plainKeys[:4]), genScalar(c, g))
			}
			return o
		}
		if len(n.Elems) > 0 && n.Elems[0].K == 'n' && c.Chance(3, 4) {
			return vn(symbols[c.Int(3)])
		}
		return genValNoKeyed(c, g, g.MaxDepth-1)
	}
	switch c.Pick(3, 3, 2, 2, 1) {
	case 0: // insert
		i := c.Int(len(n.Elems) + 1)
		n.Elems = append(n.Elems[:i:i], append([]*Val{fresh()}, n.Elems[i:]...)...)
	case 1: // delete
		if len(n.Elems) > 0 {
			i := c.Int(len(n.Elems))
			n.Elems = append(n.Elems[:i:i], n.Elems[i+1:]...)
		}
	case 2: // replace
		if len(n.Elems) > 0 {
			n.Elems[c.Int(len(n.Elems))] = fresh()
		}
	case 3: // move
		if len(n.Elems) > 1 {
			i, j := c.Int(len(n.Elems)), c.Int(len(n.Elems))
			n.Elems[i], n.Elems[j] = n.Elems[j], n.Elems[i]
		}
	default: // duplicate
		if len(n.Elems) > 0 && !keyed {
			n.Elems = append(n.Elems, n.Elems[c.Int(len(n.Elems))].clone())
		}
	}
	return v
}

// lineage generates v0 -> v1 -> ... -> vk.
func lineage(c *Chooser, g GenCfg, k int) []*Val {
	docs := []*Val{genDoc(c, g)}
	for i := 0; i < k; i++ {
		d := docs[len(docs)-1]
		n := c.Range(1, 4)
		for j := 0; j < n; j++ {
			d = edit(c, g, d)
		}
		docs = append(docs, d)
	}
	return docs
}

// everyArrayObjectHas reports whether every object that is a member of an
// array carries all the keys (the precondition of -setkeys).
func everyArrayObjectHas(v *Val, keys []string) bool {
	switch v.K {
	case 'o':
		for _, x := range v.Vals {
			if !everyArrayObjectHas(x, keys) {
				return false
			}
		}
	case 'a':
		for _, e := range v.Elems {
			if e.K == 'o' {
				for _, k := range keys {
					if _, ok := e.get(k); !ok {
						return false
					}
				}
			}
			if !everyArrayObjectHas(e, keys) {
				return false
			}
		}
	}
	return true
}

// perturb returns a clone of v in which some numbers moved by about eps.
func perturb(c *Chooser, v *Val, eps float64) *Val {
	v = v.clone()
	var walk func(n *Val)
	walk = func(n *Val) {
		switch n.K {
		case 'n':
			if c.Chance(1, 2) {
				n.N += eps * []float64{0.5, -0.5, 0.99, -0.25, 1.5, 1, -1, 1}[c.Int(8)] // also exactly the tolerance
			}
		case 'o':
			for _, x := range n.Vals {
				walk(x)
			}
		case 'a':
			for _, x := range n.Elems {
				walk(x)
			}
		}
	}
	walk(v)
	return v
}

// straddle rewrites numbers of both documents in step: a number and its
// counterpart end up on either side of a common base (zero, or the number's
// own value), a little less or a little more than the tolerance apart. An
// implementation of the tolerance that buckets, truncates or rounds gets such
// pairs wrong in one direction or the other.
func straddle(c *Chooser, a, b *Val, eps float64) (*Val, *Val) {
	a, b = a.clone(), b.clone()
	var walk func(x, y *Val)
	walk = func(x, y *Val) {
		if x == nil || y == nil || x.K != y.K {
			return
		}
		switch x.K {
		case 'n':
			if c.Chance(1, 2) {
				base := x.N
				if c.Chance(1, 2) {
					base = 0
				}
				d := [][2]float64{{0.6, 0.7}, {0.4, 0.4}, {0.5, 0.5}, {0.8, 0.45}, {0.3, 0.9}}[c.Int(5)]
				x.N, y.N = base-d[0]*eps, base+d[1]*eps
			}
		case 'o':
			for i, k := range x.Keys {
				if w, ok := y.get(k); ok {
					walk(x.Vals[i], w)
				}
			}
		case 'a':
			for i := range x.Elems {
				if i < len(y.Elems) {
					walk(x.Elems[i], y.Elems[i])
				}
			}
		}
	}
	walk(a, b)
	return a, b
}

// idVal builds an identity value of the given kind for ordinal i.
func idVal(kind, i int) *Val {
	switch kind {
	case 1:
		return vs("id-" + strconv.Itoa(i))
	case 2:
		return &Val{K: 'a', Elems: []*Val{vn(float64(i))}}
	case 3:
		return &Val{K: 'o', Keys: []string{"k"}, Vals: []*Val{vn(float64(i))}}
	}
	return vn(float64(i))
}

// ordinalOf recovers the ordinal an identity value was built from.
func ordinalOf(id *Val) int {
	switch id.K {
	case 'n':
		return int(id.N)
	case 's':
		n, _ := strconv.Atoi(strings.TrimPrefix(id.S, "id-"))
		return n
	case 'a':
		if len(id.Elems) == 1 {
			return int(id.Elems[0].N)
		}
	case 'o':
		if len(id.Vals) == 1 {
			return int(id.Vals[0].N)
		}
	}
	return 0
}

// idLike returns a fresh identity of the same kind as the ones in elems.
func idLike(elems []*Val, _ float64) *Val {
	kind, max := 0, -1
	for _, e := range elems {
		id, ok := e.get("id")
		if !ok {
			continue
		}
		switch id.K {
		case 's':
			kind = 1
		case 'a':
			kind = 2
		case 'o':
			kind = 3
		}
		if o := ordinalOf(id); o > max {
			max = o
		}
	}
	return idVal(kind, max+1)
}

// editable lists the containers an edit may touch: every container, except
// (when identities must stay unique) anything inside an "id" value.
func editable(v *Val, protectIDs bool, out []*Val) []*Val {
	switch v.K {
	case 'o':
		out = append(out, v)
		for i, x := range v.Vals {
			if protectIDs && v.Keys[i] == "id" || v.Keys[i] == "huge" || v.Keys[i] == "pad" {
				continue // identities stay unique; bulk padding is not edited element by element
			}
			out = editable(x, protectIDs, out)
		}
	case 'a':
		out = append(out, v)
		for _, x := range v.Elems {
			out = editable(x, protectIDs, out)
		}
	}
	return out
}

// shuffleArrays returns a clone of v in which every array is permuted (and,
// when dup is set, some member repeated): equal to v as sets or multisets.
func shuffleArrays(c *Chooser, v *Val, dup bool) *Val {
	v = v.clone()
	for _, n := range containers(v, nil) {
		if n.K != 'a' {
			continue
		}
		for i := len(n.Elems) - 1; i > 0; i-- {
			j := c.Int(i + 1)
			n.Elems[i], n.Elems[j] = n.Elems[j], n.Elems[i]
		}
		if dup && len(n.Elems) > 0 && c.Chance(1, 3) {
			n.Elems = append(n.Elems, n.Elems[c.Int(len(n.Elems))].clone())
		}
	}
	return v
}

// blockScalarOK: printable lines, no leading blanks, exactly one final newline.
func blockScalarOK(s string) bool {
	if !strings.HasSuffix(s, "\n") || strings.HasSuffix(s, "\n\n") || len(s) < 2 {
		return false
	}
	for _, l := range strings.Split(strings.TrimSuffix(s, "\n"), "\n") {
		if l == "" || l[0] == ' ' || l[0] == '\t' || strings.TrimSpace(l) != l {
			return false
		}
		for _, r := range l {
			if r < 0x20 || r == 0x7f || r > 0x7e {
				return false
			}
		}
	}
	return true
}
