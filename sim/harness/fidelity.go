package main

import (
	"bytes"
	"encoding/json"
	"flag"
	"fmt"
	"github.com/josephburnett/jd/v2/verif/simos"
	"os"
	"os/exec"
	"path/filepath"
	"sort"
	"strings"
)

// fidelityResult summarises the cross-check of simulated processes against
// the unmodified binaries running on the real OS.
type fidelityResult struct {
	Sessions     int    `json:"sessions"`
	Compared     int    `json:"processes_compared"`
	Mismatch     int    `json:"mismatches"`
	SelfDisagree int    `json:"real_binary_disagreed_with_itself"`
	Skipped      int    `json:"skipped"`
	Wording      int    `json:"same_outcome_different_stderr_wording"`
	// the stdout-enospc fault against reality: the same process with its
	// stdout redirected to /dev/full
	StdoutFull         int `json:"stdout_on_dev_full_compared"`
	StdoutFullMismatch int `json:"stdout_on_dev_full_mismatches"`
	First        string `json:"first_mismatch,omitempty"`
}

func runFidelity(self, scratch string, seed uint64, n int) fidelityResult {
	cmd := exec.Command(self, "fidelity", "-seed", fmt.Sprint(seed), "-n", fmt.Sprint(n), "-bin", filepath.Join(scratch, "bin"), "-dir", filepath.Join(scratch, "fid"))
	out, err := cmd.Output()
	var r fidelityResult
	if jerr := json.Unmarshal(out, &r); jerr != nil {
		infra("fidelity self-test did not run: %v %v: %s", err, jerr, tail(string(out), 500))
	}
	return r
}

type realOut struct {
	Code   int
	Stdout []byte
	Stderr []byte
	Files  map[string]string
}

func runReal(bin, dir string, p ProcSpec, stdin []byte) (realOut, error) {
	return runRealTo(bin, dir, p, stdin, false)
}

// runRealTo runs the unmodified binary; with full set its stdout is /dev/full
// (every write fails with ENOSPC).
func runRealTo(bin, dir string, p ProcSpec, stdin []byte, full bool) (realOut, error) {
	arg0 := p.Arg0
	if arg0 == "" {
		arg0 = "jd"
	}
	cmd := exec.Command(bin, p.Argv...)
	cmd.Args[0] = arg0
	cmd.Dir = dir
	cmd.Env = []string{"PATH=/nonexistent"}
	if p.Stdin != nil {
		cmd.Stdin = bytes.NewReader(stdin)
	}
	var so, se bytes.Buffer
	cmd.Stdout, cmd.Stderr = &so, &se
	if full {
		f, err := os.OpenFile("/dev/full", os.O_WRONLY, 0)
		if err != nil {
			return realOut{}, err
		}
		defer f.Close()
		cmd.Stdout = f
	}
	err := cmd.Run()
	code := 0
	if err != nil {
		ee, ok := err.(*exec.ExitError)
		if !ok {
			return realOut{}, err
		}
		code = ee.ExitCode()
	}
	files := map[string]string{}
	filepath.WalkDir(dir, func(path string, d os.DirEntry, err error) error {
		if err != nil || d.IsDir() {
			return nil
		}
		rel, _ := filepath.Rel(dir, path)
		b, _ := os.ReadFile(path)
		files[filepath.ToSlash(rel)] = string(b)
		return nil
	})
	return realOut{code, so.Bytes(), se.Bytes(), files}, nil
}

func (a realOut) same(b realOut) bool {
	if a.Code != b.Code || !bytes.Equal(a.Stdout, b.Stdout) || !bytes.Equal(maskStamp(a.Stderr), maskStamp(b.Stderr)) || len(a.Files) != len(b.Files) {
		return false
	}
	for k, v := range a.Files {
		if w, ok := b.Files[k]; !ok || w != v {
			return false
		}
	}
	return true
}

func materialise(dir string, s Session) error {
	os.RemoveAll(dir)
	if err := os.MkdirAll(dir, 0o755); err != nil {
		return err
	}
	for _, d := range s.Dirs {
		if err := os.MkdirAll(filepath.Join(dir, d), 0o755); err != nil {
			return err
		}
	}
	for _, f := range s.Files {
		if err := os.WriteFile(filepath.Join(dir, f.Name), f.Data, 0o644); err != nil {
			return err
		}
	}
	return nil
}

func fidelityMain(args []string) {
	fs := flag.NewFlagSet("fidelity", flag.ExitOnError)
	seed := fs.Uint64("seed", 1, "seed")
	n := fs.Int("n", 100, "number of processes to compare")
	binDir := fs.String("bin", "", "directory with jd-v2 and jd-top")
	dir := fs.String("dir", "", "scratch directory")
	verbose := fs.Bool("v", false, "print mismatches")
	fs.Parse(args)
	res := fidelityResult{}
	bins := map[string]string{"v2": filepath.Join(*binDir, "jd-v2"), "top": filepath.Join(*binDir, "jd-top")}
	for run := int64(0); res.Compared < *n && run < int64(*n)*4; run++ {
		ch := newChooser(runSeed(*seed, "fidelity", run))
		s := genSession14(ch)
		// the real OS does not produce the legal-but-rare behaviours the
		// simulator can (short reads of regular files, stdin as a regular
		// file): compare on the plain configuration
		s.FileChunk = 0
		s.StdoutTTY = false
		s.Env = nil
		s.Clock = simos.ClockPolicy{} // the real binary runs on the real clock of an idle machine: the steady one is its counterpart
		if len(s.Links) > 0 {
			continue // symbolic links are not materialised for the cross-check
		}
		for pi := range s.Procs {
			if s.Procs[pi].Stdin != nil {
				st := *s.Procs[pi].Stdin
				st.Redirect = false
				st.Plan, st.EOFWithData = nil, false // a real pipe here delivers the bytes in one piece
				s.Procs[pi].Stdin = &st
			}
		}
		res.Sessions++
		// three real executions of the whole session
		var reals [3][]realOut
		ok := true
		for rep := 0; rep < 3 && ok; rep++ {
			d := filepath.Join(*dir, fmt.Sprintf("s%d", rep))
			if err := materialise(d, s); err != nil {
				infra("fidelity: %v", err)
			}
			var prev []byte
			for _, p := range s.Procs {
				var in []byte
				if p.Stdin != nil {
					switch {
					case p.Stdin.From == "data":
						in = p.Stdin.Data
					case p.Stdin.From == "prev":
						in = prev
					case strings.HasPrefix(p.Stdin.From, "file:"):
						in, _ = os.ReadFile(filepath.Join(d, strings.TrimPrefix(p.Stdin.From, "file:")))
					}
				}
				if p.Arg0 == "" {
					p.Arg0 = s.Arg0
				}
				ro, err := runReal(bins[p.Bin], d, p, in)
				if err != nil {
					infra("fidelity: cannot run real binary: %v", err)
				}
				reals[rep] = append(reals[rep], ro)
				prev = ro.Stdout
			}
		}
		stable := true
		for i := range s.Procs {
			if !reals[0][i].same(reals[1][i]) || !reals[0][i].same(reals[2][i]) {
				stable = false
			}
		}
		if !stable {
			res.SelfDisagree++
			continue
		}
		sim := runSession(s, fsFromSession(s.Files, s.Dirs, s.Links), false, false)
		for i := range s.Procs {
			so := realOut{Code: sim.Res[i].Code, Stdout: sim.Res[i].Stdout, Stderr: sim.Res[i].Stderr, Files: map[string]string{}}
			for _, nme := range sim.FSPost[i].Names() {
				so.Files[nme] = string(sim.FSPost[i].Files[nme])
			}
			res.Compared++
			if sim.Res[i].Crash != "" {
				// a Go panic: the real process exits 2 with a stack trace on stderr
				if reals[0][i].Code == 2 && bytes.Contains(reals[0][i].Stderr, []byte("panic:")) {
					continue
				}
			}
			if !so.same(reals[0][i]) && realIsNondeterministic(bins, *dir, s, i, reals[0][i]) {
				// the tree under test has map-order nondeterminism here (for
				// example the v1 merge reader): nothing to compare against
				res.SelfDisagree++
				continue
			}
			if !so.same(reals[0][i]) {
				soft := so
				soft.Stderr = reals[0][i].Stderr
				if soft.same(reals[0][i]) && len(so.Stderr) > 0 && len(reals[0][i].Stderr) > 0 {
					// same status, stdout and files, and both explain themselves on
					// stderr, in different words (which of two offending keys an
					// error names depends on map iteration order, for example):
					// wording is no part of any claimed property
					res.Wording++
					continue
				}
				res.Mismatch++
				msg := fmt.Sprintf("%s %q: sim code=%d stdout=%s stderr=%s files=%v | real code=%d stdout=%s stderr=%s files=%v", s.Procs[i].Bin, s.Procs[i].Argv,
					so.Code, show(so.Stdout), show(maskStamp(so.Stderr)), keysOf(so.Files), reals[0][i].Code, show(reals[0][i].Stdout), show(maskStamp(reals[0][i].Stderr)), keysOf(reals[0][i].Files))
				if res.First == "" {
					res.First = msg
				}
				if *verbose {
					fmt.Fprintln(os.Stderr, "MISMATCH", msg)
				}
			}
		}
		if res.Sessions%3 == 0 {
			stdoutFullCheck(&res, bins, *dir, s, sim, *verbose)
		}
	}
	os.RemoveAll(*dir)
	b, _ := json.Marshal(res)
	os.Stdout.Write(b)
}

// stdoutFullCheck compares the simulator's stdout-enospc fault with reality:
// the last process of the session, which prints a result and succeeds, is run
// once more with its stdout on /dev/full, in the simulator with the fault on
// its first stdout write. Exit status, files and "says something on stderr"
// must agree.
func stdoutFullCheck(res *fidelityResult, bins map[string]string, dir string, s Session, sim *sessRun, verbose bool) {
	if fi, err := os.Stat("/dev/full"); err != nil || fi.Mode()&os.ModeCharDevice == 0 {
		return
	}
	last := len(s.Procs) - 1
	if last < 0 || sim.Res[last].Code > 1 || sim.Res[last].Crash != "" {
		return
	}
	step := -1
	for _, st := range sim.Res[last].Steps {
		if st.Kind == simos.SStdout {
			step = st.N
			break
		}
	}
	if step < 0 {
		return
	}
	d := filepath.Join(dir, "full")
	if err := materialise(d, s); err != nil {
		return
	}
	var prev []byte
	var ro realOut
	for j, p := range s.Procs {
		var in []byte
		if p.Stdin != nil {
			switch {
			case p.Stdin.From == "data":
				in = p.Stdin.Data
			case p.Stdin.From == "prev":
				in = prev
			case strings.HasPrefix(p.Stdin.From, "file:"):
				in, _ = os.ReadFile(filepath.Join(d, strings.TrimPrefix(p.Stdin.From, "file:")))
			}
		}
		if p.Arg0 == "" {
			p.Arg0 = s.Arg0
		}
		var err error
		ro, err = runRealTo(bins[p.Bin], d, p, in, j == last)
		if err != nil {
			return
		}
		prev = ro.Stdout
	}
	s2 := s
	s2.Procs = append([]ProcSpec(nil), s.Procs...)
	s2.Procs[last].Faults = []simos.Fault{{Step: step, Kind: simos.FStdoutENOSPC}}
	flt := runSession(s2, fsFromSession(s.Files, s.Dirs, s.Links), false, false)
	fr := flt.Res[last]
	res.StdoutFull++
	ok := fr.Code == ro.Code && (len(fr.Stderr) > 0) == (len(ro.Stderr) > 0)
	if ok {
		names := flt.FSPost[last].Names()
		if len(names) != len(ro.Files) {
			ok = false
		}
		for _, n := range names {
			if w, have := ro.Files[n]; !have || w != string(flt.FSPost[last].Files[n]) {
				ok = false
			}
		}
	}
	if !ok {
		res.StdoutFullMismatch++
		res.Mismatch++
		msg := fmt.Sprintf("stdout on /dev/full: %s %q: sim code=%d stderr=%s | real code=%d stderr=%s", s.Procs[last].Bin, s.Procs[last].Argv, fr.Code, show(maskStamp(fr.Stderr)), ro.Code, show(maskStamp(ro.Stderr)))
		if res.First == "" {
			res.First = msg
		}
		if verbose {
			fmt.Fprintln(os.Stderr, "MISMATCH", msg)
		}
	}
}

func keysOf(m map[string]string) []string {
	var k []string
	for n := range m {
		k = append(k, n)
	}
	sort.Strings(k)
	return k
}

// realIsNondeterministic re-runs the session up to 24 more times on the real
// binaries and reports whether process i ever behaves differently from ref.
func realIsNondeterministic(bins map[string]string, dir string, s Session, i int, ref realOut) bool {
	for rep := 0; rep < 24; rep++ {
		d := filepath.Join(dir, "again")
		if err := materialise(d, s); err != nil {
			return false
		}
		var prev []byte
		for j, p := range s.Procs {
			var in []byte
			if p.Stdin != nil {
				switch {
				case p.Stdin.From == "data":
					in = p.Stdin.Data
				case p.Stdin.From == "prev":
					in = prev
				case strings.HasPrefix(p.Stdin.From, "file:"):
					in, _ = os.ReadFile(filepath.Join(d, strings.TrimPrefix(p.Stdin.From, "file:")))
				}
			}
			if p.Arg0 == "" {
				p.Arg0 = s.Arg0
			}
			ro, err := runReal(bins[p.Bin], d, p, in)
			if err != nil {
				return false
			}
			prev = ro.Stdout
			if j == i {
				if !ro.same(ref) {
					return true
				}
				break
			}
		}
	}
	return false
}
