// Package rand is the simulator's stand-in for math/rand as used by the mains:
// a fixed-seed generator, so nothing here is a source of nondeterminism.
package rand

import (
	realrand "math/rand"

	"github.com/josephburnett/jd/v2/verif/simos"
)

var r = realrand.New(realrand.NewSource(1))

func init() { simos.OnArgs(func([]string) { r = realrand.New(realrand.NewSource(1)) }) }

func Int() int         { simos.Note(simos.SRand, "Int"); return r.Int() }
func Intn(n int) int   { simos.Note(simos.SRand, "Intn"); return r.Intn(n) }
func Int63() int64     { simos.Note(simos.SRand, "Int63"); return r.Int63() }
func Float64() float64 { simos.Note(simos.SRand, "Float64"); return r.Float64() }
func Seed(seed int64)  { r = realrand.New(realrand.NewSource(seed)) }
func Uint32() uint32   { return r.Uint32() }
func Perm(n int) []int { return r.Perm(n) }
