// Package log is the simulator's stand-in for the standard logger: same line
// format as log.LstdFlags, timestamp taken from the simulated clock, output to
// the simulated stderr.
package log

import (
	"fmt"
	"io"

	"github.com/josephburnett/jd/v2/verif/simos"
)

const (
	Ldate = 1 << iota
	Ltime
	Lmicroseconds
	Llongfile
	Lshortfile
	LUTC
	Lmsgprefix
	LstdFlags = Ldate | Ltime
)

var (
	flags  = LstdFlags
	prefix = ""
	// dest, when set with SetOutput, replaces the simulated stderr
	dest io.Writer
)

// Reset restores the logger defaults (a fresh process has them).
func init() { simos.OnArgs(func([]string) { flags, prefix, dest = LstdFlags, "", nil }) }

// SetOutput sets the destination of the standard logger.
func SetOutput(w io.Writer) { dest = w }

func SetFlags(f int)     { flags = f }
func Flags() int         { return flags }
func SetPrefix(p string) { prefix = p }
func Prefix() string     { return prefix }

// Output is log.Output: the line goes to the simulated stderr and the write
// error, if any, comes back (calldepth only matters for file:line flags,
// which the simulator does not render).
func Output(calldepth int, s string) error { return output(s) }

// Writer returns the destination of the standard logger.
func Writer() io.Writer {
	if dest != nil {
		return dest
	}
	return simos.HStderr
}

func output(s string) error {
	line := prefix
	if flags&(Ldate|Ltime) != 0 {
		line += simos.Stamp()
	}
	line += s
	if len(s) == 0 || s[len(s)-1] != '\n' {
		line += "\n"
	}
	if dest != nil {
		_, err := dest.Write([]byte(line))
		return err
	}
	_, err := simos.HStderr.Write([]byte(line))
	return err
}

func Print(v ...any)                 { output(fmt.Sprint(v...)) }
func Printf(format string, v ...any) { output(fmt.Sprintf(format, v...)) }
func Println(v ...any)               { output(fmt.Sprintln(v...)) }

func Fatal(v ...any)                 { output(fmt.Sprint(v...)); simos.Exit(1) }
func Fatalf(format string, v ...any) { output(fmt.Sprintf(format, v...)); simos.Exit(1) }
func Fatalln(v ...any)               { output(fmt.Sprintln(v...)); simos.Exit(1) }

func Panic(v ...any)                 { s := fmt.Sprint(v...); output(s); panic(s) }
func Panicf(format string, v ...any) { s := fmt.Sprintf(format, v...); output(s); panic(s) }
func Panicln(v ...any)               { s := fmt.Sprintln(v...); output(s); panic(s) }
