// Package signal is the simulator's stand-in for os/signal: nothing in the
// simulation delivers signals, so handlers can be installed and removed but
// never run; no signal is ignored at process start.
package signal

import (
	"context"
	"os"

	"github.com/josephburnett/jd/v2/verif/simos"
)

func Notify(c chan<- os.Signal, sig ...os.Signal) { simos.Note("signal.Notify", "") }
func Stop(c chan<- os.Signal)                       {}
func Reset(sig ...os.Signal)                        {}
func Ignore(sig ...os.Signal)                       {}
func Ignored(sig os.Signal) bool                    { return false }
func NotifyContext(parent context.Context, signals ...os.Signal) (context.Context, context.CancelFunc) {
	return context.WithCancel(parent)
}
