// Package os is the simulator's stand-in for package os as seen by jd's two
// main.go files. Pure things are re-exported; effects go to simos.
package os

import (
	"io"
	"io/fs"
	realos "os"
	"strconv"
	"strings"
	"time"

	"github.com/josephburnett/jd/v2/verif/simos"
)

// Args is kept current by simos when a simulated process starts.
var Args []string

func init() { simos.OnArgs(func(a []string) { Args = a; tempSeq = 0 }) }

type (
	FileMode     = fs.FileMode
	FileInfo     = fs.FileInfo
	PathError    = fs.PathError
	ProcessState = realos.ProcessState
	Signal       = realos.Signal
)

const (
	O_RDONLY = realos.O_RDONLY
	O_WRONLY = realos.O_WRONLY
	O_RDWR   = realos.O_RDWR
	O_APPEND = realos.O_APPEND
	O_CREATE = realos.O_CREATE
	O_EXCL   = realos.O_EXCL
	O_SYNC   = realos.O_SYNC
	O_TRUNC  = realos.O_TRUNC

	ModePerm          = fs.ModePerm
	PathSeparator     = realos.PathSeparator
	PathListSeparator = realos.PathListSeparator
	DevNull           = realos.DevNull
)

var (
	ErrInvalid    = fs.ErrInvalid
	ErrPermission = fs.ErrPermission
	ErrExist      = fs.ErrExist
	ErrNotExist   = fs.ErrNotExist
	ErrClosed     = fs.ErrClosed
)

func IsNotExist(err error) bool   { return realos.IsNotExist(err) }
func IsExist(err error) bool      { return realos.IsExist(err) }
func IsPermission(err error) bool { return realos.IsPermission(err) }

// File wraps a simulated handle.
type File struct{ h *simos.Handle }

var (
	Stdin  = &File{simos.HStdin}
	Stdout = &File{simos.HStdout}
	Stderr = &File{simos.HStderr}
)

func (f *File) Read(b []byte) (int, error)        { return f.h.Read(b) }
func (f *File) Write(b []byte) (int, error)       { return f.h.Write(b) }
func (f *File) WriteString(s string) (int, error) { return f.h.Write([]byte(s)) }
func (f *File) Close() error                      { return f.h.Close() }
func (f *File) Name() string                      { return f.h.Name }
func (f *File) Sync() error                       { return f.h.Sync() }
func (f *File) Seek(offset int64, whence int) (int64, error) {
	return f.h.Seek(offset, whence)
}
func (f *File) Truncate(size int64) error         { return f.h.Truncate(size) }
func (f *File) Fd() uintptr                       { return ^uintptr(0) }
func (f *File) Chmod(mode FileMode) error         { return nil }
func (f *File) Chown(uid, gid int) error          { return nil }
func (f *File) ReadFrom(r io.Reader) (int64, error) {
	b, err := io.ReadAll(r)
	if err != nil {
		return 0, err
	}
	n, err := f.h.Write(b)
	return int64(n), err
}
func (f *File) Stat() (FileInfo, error) {
	i, err := f.h.Stat()
	if err != nil {
		return nil, err
	}
	return info{i}, nil
}

type info struct{ i simos.Info }

func (x info) Name() string { return x.i.Name }
func (x info) Size() int64  { return x.i.Size }
func (x info) Mode() FileMode {
	switch {
	case x.i.Dir:
		return fs.ModeDir | 0755
	case x.i.Link:
		return fs.ModeSymlink | 0777
	case x.i.Pipe:
		return fs.ModeNamedPipe | 0600
	case x.i.Char:
		return fs.ModeDevice | fs.ModeCharDevice | 0620
	}
	return 0644
}
func (x info) ModTime() time.Time { return time.Unix(946684800+x.i.Clock, 0).UTC() }
func (x info) IsDir() bool        { return x.i.Dir }
func (x info) Sys() any           { return nil }

const (
	ModeDir        = fs.ModeDir
	ModeNamedPipe  = fs.ModeNamedPipe
	ModeCharDevice = fs.ModeCharDevice
	ModeDevice     = fs.ModeDevice
	ModeSymlink    = fs.ModeSymlink
	ModeAppend     = fs.ModeAppend
	ModeExclusive  = fs.ModeExclusive
	ModeTemporary  = fs.ModeTemporary
	ModeSocket     = fs.ModeSocket
	ModeSetuid     = fs.ModeSetuid
	ModeSetgid     = fs.ModeSetgid
	ModeSticky     = fs.ModeSticky
	ModeIrregular  = fs.ModeIrregular
	ModeType       = fs.ModeType
)

func Stat(name string) (FileInfo, error) {
	i, err := simos.Stat(name)
	if err != nil {
		return nil, err
	}
	return info{i}, nil
}
func Lstat(name string) (FileInfo, error) {
	i, err := simos.Lstat(name)
	if err != nil {
		return nil, err
	}
	return info{i}, nil
}

// SameFile: the simulated disk has no links, two infos name the same file
// exactly when they carry the same name.
func SameFile(fi1, fi2 FileInfo) bool {
	a, ok1 := fi1.(info)
	b, ok2 := fi2.(info)
	return ok1 && ok2 && a.i.Name == b.i.Name && !a.i.Pipe && !b.i.Pipe
}
func Remove(name string) error                  { return simos.Remove(name) }
func Rename(oldpath, newpath string) error      { return simos.Rename(oldpath, newpath) }
func Mkdir(name string, perm FileMode) error    { return simos.Mkdir(name) }
func MkdirAll(path string, perm FileMode) error { return simos.Mkdir(path) }
func Chmod(name string, mode FileMode) error    { return nil }
func TempDir() string                           { return "." }
func Chown(name string, uid, gid int) error     { return nil }
func Getpid() int                               { return 4242 }

// Process: the only process a jd program can name is itself; a signal sent to
// it is recorded and otherwise inert (nothing in the simulation delivers
// signals).
type Process struct{ Pid int }

func FindProcess(pid int) (*Process, error) { return &Process{Pid: pid}, nil }
func (p *Process) Signal(sig Signal) error {
	simos.Note("signal", sig.String())
	return nil
}
func (p *Process) Kill() error    { return p.Signal(Kill) }
func (p *Process) Release() error { return nil }

var (
	Interrupt = realos.Interrupt
	Kill      = realos.Kill
)

func Getppid() int                              { return 4241 }
func Getuid() int                               { return 1000 }
func Geteuid() int                              { return 1000 }
func Getwd() (string, error)                    { return simos.Cwd, nil }
func Hostname() (string, error)                 { return "simhost", nil }
func Environ() []string                         { return nil }
func Readlink(name string) (string, error) {
	if t, ok := simos.Cur.FS.Links[name]; ok {
		return t, nil
	}
	return "", &PathError{Op: "readlink", Path: name, Err: fs.ErrInvalid}
}

var tempSeq int

// CreateTemp creates a new file with a deterministic name: like the real one
// it replaces the last "*" of the pattern (or appends) by a unique string.
func CreateTemp(dir, pattern string) (*File, error) {
	tempSeq++
	if dir == "" {
		dir = "."
	}
	uniq := "t" + strconv.Itoa(tempSeq)
	name := pattern + uniq
	if i := strings.LastIndexByte(pattern, '*'); i >= 0 {
		name = pattern[:i] + uniq + pattern[i+1:]
	}
	dir = strings.TrimRight(dir, "/")
	if dir == "" {
		dir = "/"
	}
	if dir != "." {
		name = dir + "/" + name
	}
	return OpenFile(name, O_RDWR|O_CREATE|O_EXCL, 0600)
}

func Exit(code int) { simos.Exit(code) }

func Getenv(k string) string { return simos.Getenv(k) }
func LookupEnv(k string) (string, bool) {
	v := simos.Getenv(k)
	return v, v != ""
}

func ReadFile(name string) ([]byte, error) { return simos.ReadFile(name) }
func WriteFile(name string, data []byte, perm FileMode) error {
	return simos.WriteFile(name, data)
}

func OpenFile(name string, flag int, perm FileMode) (*File, error) {
	h, err := simos.OpenFile(name, flag)
	if err != nil {
		return nil, err
	}
	return &File{h}, nil
}
func Open(name string) (*File, error) { return OpenFile(name, O_RDONLY, 0) }
func Create(name string) (*File, error) {
	return OpenFile(name, O_RDWR|O_CREATE|O_TRUNC, 0666)
}
