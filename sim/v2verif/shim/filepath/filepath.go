// Package filepath is the simulator's stand-in for path/filepath: everything
// that only computes is the real thing; Abs uses the simulated working
// directory, and what would walk the real disk works on the simulated one or
// is refused.
package filepath

import (
	"errors"
	"io/fs"
	real "path/filepath"

	"github.com/josephburnett/jd/v2/verif/simos"
)

const (
	Separator     = real.Separator
	ListSeparator = real.ListSeparator
)

var (
	ErrBadPattern = real.ErrBadPattern
	SkipDir       = real.SkipDir
	SkipAll       = real.SkipAll
)

type WalkFunc = real.WalkFunc

func Base(path string) string                       { return real.Base(path) }
func Clean(path string) string                      { return real.Clean(path) }
func Dir(path string) string                        { return real.Dir(path) }
func Ext(path string) string                        { return real.Ext(path) }
func FromSlash(path string) string                  { return real.FromSlash(path) }
func ToSlash(path string) string                    { return real.ToSlash(path) }
func IsAbs(path string) bool                        { return real.IsAbs(path) }
func IsLocal(path string) bool                      { return real.IsLocal(path) }
func Join(elem ...string) string                    { return real.Join(elem...) }
func Match(pattern, name string) (bool, error)      { return real.Match(pattern, name) }
func Rel(basepath, targpath string) (string, error) { return real.Rel(basepath, targpath) }
func Split(path string) (dir, file string)          { return real.Split(path) }
func SplitList(path string) []string                { return real.SplitList(path) }
func VolumeName(path string) string                 { return real.VolumeName(path) }
func HasPrefix(p, prefix string) bool               { return real.HasPrefix(p, prefix) }

// Abs makes a path absolute against the simulated working directory (and
// cleans it lexically, as the real one does).
func Abs(path string) (string, error) {
	if real.IsAbs(path) {
		return real.Clean(path), nil
	}
	return real.Join(simos.Cwd, path), nil
}

// EvalSymlinks resolves the path on the simulated disk.
func EvalSymlinks(path string) (string, error) {
	if simos.Cur == nil {
		return "", errors.New("no simulated process")
	}
	return simos.Cur.FS.Resolve(path), nil
}

func Glob(pattern string) ([]string, error) {
	return nil, errors.New("filepath.Glob is not available in the simulation")
}
func Walk(root string, fn WalkFunc) error {
	return errors.New("filepath.Walk is not available in the simulation")
}
func WalkDir(root string, fn fs.WalkDirFunc) error {
	return errors.New("filepath.WalkDir is not available in the simulation")
}
