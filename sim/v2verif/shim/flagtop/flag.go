// Package flagtop is the simulator's stand-in for package flag as seen by one of
// jd's two binaries: a private flag set per binary, argv from the simulated
// process, exit-on-error through the simulated os.Exit.
package flagtop

import (
	stdflag "flag"
	"time"

	"github.com/josephburnett/jd/v2/verif/simos"
)

const set = "flagtop"

type (
	Flag          = stdflag.Flag
	FlagSet       = simos.SimFlagSet
	Value         = stdflag.Value
	Getter        = stdflag.Getter
	ErrorHandling = stdflag.ErrorHandling
)

const (
	ContinueOnError = stdflag.ContinueOnError
	ExitOnError     = stdflag.ExitOnError
	PanicOnError    = stdflag.PanicOnError
)

// NewFlagSet returns a flag set whose ExitOnError ends the simulated process,
// not the simulator.
func NewFlagSet(name string, errorHandling ErrorHandling) *FlagSet {
	return simos.NewSimFlagSet(name, errorHandling)
}

// CommandLine is not provided: code that uses it directly does not build
// against the simulator (reported as an infrastructure error).

var ErrHelp = stdflag.ErrHelp

func Bool(name string, value bool, usage string) *bool {
	return simos.Flags(set).Bool(name, value, usage)
}
func BoolVar(p *bool, name string, value bool, usage string) {
	simos.Flags(set).BoolVar(p, name, value, usage)
}
func Int(name string, value int, usage string) *int { return simos.Flags(set).Int(name, value, usage) }
func IntVar(p *int, name string, value int, usage string) {
	simos.Flags(set).IntVar(p, name, value, usage)
}
func Int64(name string, value int64, usage string) *int64 {
	return simos.Flags(set).Int64(name, value, usage)
}
func Uint(name string, value uint, usage string) *uint {
	return simos.Flags(set).Uint(name, value, usage)
}
func String(name string, value string, usage string) *string {
	return simos.Flags(set).String(name, value, usage)
}
func StringVar(p *string, name string, value string, usage string) {
	simos.Flags(set).StringVar(p, name, value, usage)
}
func Float64(name string, value float64, usage string) *float64 {
	return simos.Flags(set).Float64(name, value, usage)
}
func Float64Var(p *float64, name string, value float64, usage string) {
	simos.Flags(set).Float64Var(p, name, value, usage)
}
func Duration(name string, value time.Duration, usage string) *time.Duration {
	return simos.Flags(set).Duration(name, value, usage)
}
func Var(value Value, name string, usage string)     { simos.Flags(set).Var(value, name, usage) }
func Func(name, usage string, fn func(string) error) { simos.Flags(set).Func(name, usage, fn) }
func BoolFunc(name, usage string, fn func(string) error) {
	simos.Flags(set).BoolFunc(name, usage, fn)
}

func Parse()                       { simos.ParseFlags(set) }
func Parsed() bool                 { return simos.Flags(set).Parsed() }
func Args() []string               { return simos.Flags(set).Args() }
func Arg(i int) string             { return simos.Flags(set).Arg(i) }
func NArg() int                    { return simos.Flags(set).NArg() }
func NFlag() int                   { return simos.Flags(set).NFlag() }
func PrintDefaults()               { simos.Flags(set).PrintDefaults() }
func Lookup(name string) *Flag     { return simos.Flags(set).Lookup(name) }
func Set(name, value string) error { return simos.Flags(set).Set(name, value) }
func Visit(fn func(*Flag))         { simos.Flags(set).Visit(fn) }
func VisitAll(fn func(*Flag))      { simos.Flags(set).VisitAll(fn) }
func Usage()                       { simos.Flags(set).Usage() }
