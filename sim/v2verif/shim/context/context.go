// Package context is the simulator's stand-in for package context. Cancellation
// and values are the standard library's; deadlines are judged by the simulated
// clock: asking a context with a deadline whether it is done is a clock
// reading, and the clock policy of the case decides when the deadline is due.
package context

import (
	stdctx "context"
	"sync"
	stdtime "time"

	"github.com/josephburnett/jd/v2/verif/simos"
)

type (
	Context         = stdctx.Context
	CancelFunc      = stdctx.CancelFunc
	CancelCauseFunc = stdctx.CancelCauseFunc
)

var (
	Canceled         = stdctx.Canceled
	DeadlineExceeded = stdctx.DeadlineExceeded
)

func Background() Context                                { return stdctx.Background() }
func TODO() Context                                      { return stdctx.TODO() }
func WithCancel(parent Context) (Context, CancelFunc)    { return stdctx.WithCancel(parent) }
func WithValue(parent Context, key, val any) Context     { return stdctx.WithValue(parent, key, val) }
func WithoutCancel(parent Context) Context               { return stdctx.WithoutCancel(parent) }
func Cause(c Context) error                              { return stdctx.Cause(c) }
func AfterFunc(ctx Context, f func()) (stop func() bool) { return stdctx.AfterFunc(ctx, f) }
func WithCancelCause(parent Context) (Context, CancelCauseFunc) {
	return stdctx.WithCancelCause(parent)
}

type deadlineCtx struct {
	parent   Context
	deadline int64 // simulated nanoseconds since 1970
	mu       sync.Mutex
	done     chan struct{}
	err      error
}

func (c *deadlineCtx) Deadline() (stdtime.Time, bool) {
	return stdtime.Unix(0, c.deadline).UTC(), true
}

func (c *deadlineCtx) finish(err error) {
	c.mu.Lock()
	defer c.mu.Unlock()
	if c.err == nil {
		c.err = err
		close(c.done)
	}
}

// poll is what makes simulated time matter: every look at the context reads
// the clock.
func (c *deadlineCtx) poll() {
	c.mu.Lock()
	over := c.err != nil
	c.mu.Unlock()
	if over {
		return
	}
	if err := c.parent.Err(); err != nil {
		c.finish(err)
		return
	}
	if simos.ClockDue(c.deadline) {
		simos.ClockExpired()
		c.finish(DeadlineExceeded)
	}
}

func (c *deadlineCtx) Done() <-chan struct{} { c.poll(); return c.done }
func (c *deadlineCtx) Err() error {
	c.poll()
	c.mu.Lock()
	defer c.mu.Unlock()
	return c.err
}
func (c *deadlineCtx) Value(key any) any { return c.parent.Value(key) }

func WithDeadline(parent Context, d stdtime.Time) (Context, CancelFunc) {
	c := &deadlineCtx{parent: parent, deadline: d.UnixNano(), done: make(chan struct{})}
	stop := stdctx.AfterFunc(parent, func() { c.finish(parent.Err()) })
	c.poll()
	return c, func() { stop(); c.finish(Canceled) }
}

func WithTimeout(parent Context, d stdtime.Duration) (Context, CancelFunc) {
	return WithDeadline(parent, stdtime.Unix(0, simos.ClockNow()+int64(d)))
}

func WithDeadlineCause(parent Context, d stdtime.Time, cause error) (Context, CancelFunc) {
	return WithDeadline(parent, d)
}

func WithTimeoutCause(parent Context, d stdtime.Duration, cause error) (Context, CancelFunc) {
	return WithTimeout(parent, d)
}
