// Package fmt is the simulator's stand-in for fmt: the printing half writes
// to the simulated stdout, everything else is the real thing.
package fmt

import (
	realfmt "fmt"
	"io"

	"github.com/josephburnett/jd/v2/verif/simos"
)

type (
	Stringer   = realfmt.Stringer
	GoStringer = realfmt.GoStringer
	Formatter  = realfmt.Formatter
	State      = realfmt.State
	Scanner    = realfmt.Scanner
	ScanState  = realfmt.ScanState
)

func Print(a ...any) (int, error) { return realfmt.Fprint(simos.HStdout, a...) }
func Printf(format string, a ...any) (int, error) {
	return realfmt.Fprintf(simos.HStdout, format, a...)
}
func Println(a ...any) (int, error) { return realfmt.Fprintln(simos.HStdout, a...) }

func Sprint(a ...any) string                 { return realfmt.Sprint(a...) }
func Sprintf(format string, a ...any) string { return realfmt.Sprintf(format, a...) }
func Sprintln(a ...any) string               { return realfmt.Sprintln(a...) }
func Errorf(format string, a ...any) error   { return realfmt.Errorf(format, a...) }

func Fprint(w io.Writer, a ...any) (int, error) { return realfmt.Fprint(w, a...) }
func Fprintf(w io.Writer, format string, a ...any) (int, error) {
	return realfmt.Fprintf(w, format, a...)
}
func Fprintln(w io.Writer, a ...any) (int, error) { return realfmt.Fprintln(w, a...) }

func Sscan(str string, a ...any) (int, error) { return realfmt.Sscan(str, a...) }
func Sscanf(str string, format string, a ...any) (int, error) {
	return realfmt.Sscanf(str, format, a...)
}
func Sscanln(str string, a ...any) (int, error) { return realfmt.Sscanln(str, a...) }
func Append(b []byte, a ...any) []byte          { return realfmt.Append(b, a...) }
func Appendf(b []byte, format string, a ...any) []byte {
	return realfmt.Appendf(b, format, a...)
}
func Appendln(b []byte, a ...any) []byte { return realfmt.Appendln(b, a...) }
