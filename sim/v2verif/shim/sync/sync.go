// Package sync is the simulator's stand-in for package sync. Under the
// goroutine scheduler a goroutine may be parked while it holds a lock; a real
// sync.Mutex would then block the next goroutine in a way the scheduler cannot
// see (not "durably", in synctest's terms) and the simulation would stall.
// These locks block on channels instead, and every wake-up is followed by a
// yield, so that who gets the lock next is the scheduler's decision. Without
// a scheduler they behave like ordinary locks.
package sync

import (
	stdsync "sync"

	"github.com/josephburnett/jd/v2/verif/simos"
)

type (
	Locker    = stdsync.Locker
	WaitGroup = stdsync.WaitGroup
	Map       = stdsync.Map
	Pool      = stdsync.Pool
	Cond      = stdsync.Cond
)

func NewCond(l Locker) *Cond { return stdsync.NewCond(l) }

// Mutex is a mutual exclusion lock whose waiters block on a channel.
type Mutex struct {
	g       stdsync.Mutex // guards the fields, never held across a block
	held    bool
	waiters []chan struct{}
}

func (m *Mutex) TryLock() bool {
	m.g.Lock()
	defer m.g.Unlock()
	if m.held {
		return false
	}
	m.held = true
	return true
}

func (m *Mutex) Lock() {
	simos.Yield("lock")
	for {
		m.g.Lock()
		if !m.held {
			m.held = true
			m.g.Unlock()
			return
		}
		if !simos.TreeHasGoroutines {
			// the tree starts no goroutine, so nobody can ever release the
			// lock: this is what the Go runtime reports as a fatal error
			m.g.Unlock()
			panic("fatal error: all goroutines are asleep - deadlock! (a lock is taken that is already held, and no other goroutine exists)")
		}
		ch := make(chan struct{})
		m.waiters = append(m.waiters, ch)
		m.g.Unlock()
		<-ch
		simos.Yield("lock-retry")
	}
}

func (m *Mutex) Unlock() {
	m.g.Lock()
	if !m.held {
		m.g.Unlock()
		panic("sync: unlock of unlocked mutex")
	}
	m.held = false
	w := m.waiters
	m.waiters = nil
	m.g.Unlock()
	for _, ch := range w {
		close(ch)
	}
}

// RWMutex: readers share, a writer excludes everyone. No writer preference
// (a Go program must not depend on one).
type RWMutex struct {
	g       stdsync.Mutex
	readers int
	writer  bool
	waiters []chan struct{}
}

func (m *RWMutex) wake() {
	w := m.waiters
	m.waiters = nil
	for _, ch := range w {
		close(ch)
	}
}

func (m *RWMutex) Lock() {
	simos.Yield("lock")
	for {
		m.g.Lock()
		if !m.writer && m.readers == 0 {
			m.writer = true
			m.g.Unlock()
			return
		}
		if !simos.TreeHasGoroutines {
			// the tree starts no goroutine, so nobody can ever release the
			// lock: this is what the Go runtime reports as a fatal error
			m.g.Unlock()
			panic("fatal error: all goroutines are asleep - deadlock! (a lock is taken that is already held, and no other goroutine exists)")
		}
		ch := make(chan struct{})
		m.waiters = append(m.waiters, ch)
		m.g.Unlock()
		<-ch
		simos.Yield("lock-retry")
	}
}

func (m *RWMutex) TryLock() bool {
	m.g.Lock()
	defer m.g.Unlock()
	if m.writer || m.readers > 0 {
		return false
	}
	m.writer = true
	return true
}

func (m *RWMutex) Unlock() {
	m.g.Lock()
	if !m.writer {
		m.g.Unlock()
		panic("sync: Unlock of unlocked RWMutex")
	}
	m.writer = false
	m.wake()
	m.g.Unlock()
}

func (m *RWMutex) RLock() {
	simos.Yield("rlock")
	for {
		m.g.Lock()
		if !m.writer {
			m.readers++
			m.g.Unlock()
			return
		}
		if !simos.TreeHasGoroutines {
			// the tree starts no goroutine, so nobody can ever release the
			// lock: this is what the Go runtime reports as a fatal error
			m.g.Unlock()
			panic("fatal error: all goroutines are asleep - deadlock! (a lock is taken that is already held, and no other goroutine exists)")
		}
		ch := make(chan struct{})
		m.waiters = append(m.waiters, ch)
		m.g.Unlock()
		<-ch
		simos.Yield("lock-retry")
	}
}

func (m *RWMutex) TryRLock() bool {
	m.g.Lock()
	defer m.g.Unlock()
	if m.writer {
		return false
	}
	m.readers++
	return true
}

func (m *RWMutex) RUnlock() {
	m.g.Lock()
	if m.readers == 0 {
		m.g.Unlock()
		panic("sync: RUnlock of unlocked RWMutex")
	}
	m.readers--
	if m.readers == 0 {
		m.wake()
	}
	m.g.Unlock()
}

type rlocker RWMutex

func (r *rlocker) Lock()   { (*RWMutex)(r).RLock() }
func (r *rlocker) Unlock() { (*RWMutex)(r).RUnlock() }

func (m *RWMutex) RLocker() Locker { return (*rlocker)(m) }

// Once runs a function once; later callers wait (on the lock above) until the
// first call has returned.
type Once struct {
	m    Mutex
	done bool
}

func (o *Once) Do(f func()) {
	o.m.Lock()
	defer o.m.Unlock()
	if !o.done {
		defer func() { o.done = true }()
		f()
	}
}

func OnceFunc(f func()) func() {
	var o Once
	return func() { o.Do(f) }
}

func OnceValue[T any](f func() T) func() T {
	var o Once
	var v T
	return func() T {
		o.Do(func() { v = f() })
		return v
	}
}

func OnceValues[T1, T2 any](f func() (T1, T2)) func() (T1, T2) {
	var o Once
	var v1 T1
	var v2 T2
	return func() (T1, T2) {
		o.Do(func() { v1, v2 = f() })
		return v1, v2
	}
}
