// Package time is the simulator's stand-in for package time. Types, constants
// and everything that merely computes are the standard library's; whatever
// reads the clock, sleeps or arms a timer goes to the simulated clock
// (simos/clock.go). Nothing here reads the machine's clock or waits in real
// time.
package time

import (
	stdtime "time"

	"github.com/josephburnett/jd/v2/verif/simos"
)

type (
	Duration   = stdtime.Duration
	Time       = stdtime.Time
	Month      = stdtime.Month
	Weekday    = stdtime.Weekday
	Location   = stdtime.Location
	ParseError = stdtime.ParseError
)

const (
	Nanosecond  = stdtime.Nanosecond
	Microsecond = stdtime.Microsecond
	Millisecond = stdtime.Millisecond
	Second      = stdtime.Second
	Minute      = stdtime.Minute
	Hour        = stdtime.Hour

	Layout      = stdtime.Layout
	ANSIC       = stdtime.ANSIC
	UnixDate    = stdtime.UnixDate
	RubyDate    = stdtime.RubyDate
	RFC822      = stdtime.RFC822
	RFC822Z     = stdtime.RFC822Z
	RFC850      = stdtime.RFC850
	RFC1123     = stdtime.RFC1123
	RFC1123Z    = stdtime.RFC1123Z
	RFC3339     = stdtime.RFC3339
	RFC3339Nano = stdtime.RFC3339Nano
	Kitchen     = stdtime.Kitchen
	Stamp       = stdtime.Stamp
	StampMilli  = stdtime.StampMilli
	StampMicro  = stdtime.StampMicro
	StampNano   = stdtime.StampNano
	DateTime    = stdtime.DateTime
	DateOnly    = stdtime.DateOnly
	TimeOnly    = stdtime.TimeOnly

	January   = stdtime.January
	February  = stdtime.February
	March     = stdtime.March
	April     = stdtime.April
	May       = stdtime.May
	June      = stdtime.June
	July      = stdtime.July
	August    = stdtime.August
	September = stdtime.September
	October   = stdtime.October
	November  = stdtime.November
	December  = stdtime.December

	Sunday    = stdtime.Sunday
	Monday    = stdtime.Monday
	Tuesday   = stdtime.Tuesday
	Wednesday = stdtime.Wednesday
	Thursday  = stdtime.Thursday
	Friday    = stdtime.Friday
	Saturday  = stdtime.Saturday
)

// the simulated machine lives in UTC
var (
	UTC   = stdtime.UTC
	Local = stdtime.UTC
)

func Date(year int, month Month, day, hour, min, sec, nsec int, loc *Location) Time {
	return stdtime.Date(year, month, day, hour, min, sec, nsec, loc)
}
func Unix(sec, nsec int64) Time                   { return stdtime.Unix(sec, nsec).UTC() }
func UnixMilli(ms int64) Time                     { return stdtime.UnixMilli(ms).UTC() }
func UnixMicro(us int64) Time                     { return stdtime.UnixMicro(us).UTC() }
func Parse(layout, value string) (Time, error)    { return stdtime.Parse(layout, value) }
func ParseDuration(s string) (Duration, error)    { return stdtime.ParseDuration(s) }
func FixedZone(name string, offset int) *Location { return stdtime.FixedZone(name, offset) }
func LoadLocation(name string) (*Location, error) { return stdtime.UTC, nil }
func ParseInLocation(l, v string, loc *Location) (Time, error) {
	return stdtime.ParseInLocation(l, v, loc)
}

func Now() Time                    { return stdtime.Unix(0, simos.ClockNow()).UTC() }
func Since(t Time) Duration        { return Now().Sub(t) }
func Until(t Time) Duration        { return t.Sub(Now()) }
func Sleep(d Duration)             { simos.ClockSleep(int64(d)) }
func After(d Duration) <-chan Time { return NewTimer(d).C }
func Tick(d Duration) <-chan Time  { return NewTicker(d).C }

// Timer is a simulated timer. It fires at once when the clock policy says
// deadlines are already due; otherwise it fires when simulated time is made to
// pass its deadline by Sleep, or never: a computation that does not read the
// clock takes no simulated time.
type Timer struct {
	C    <-chan Time
	c    chan Time
	f    func()
	done bool
}

func arm(d Duration, f func()) *Timer {
	c := make(chan Time, 1)
	t := &Timer{C: c, c: c, f: f}
	if d <= 0 || simos.ClockMode() == "expired" {
		t.fire()
	}
	return t
}

func (t *Timer) fire() {
	if t.done {
		return
	}
	t.done = true
	simos.ClockExpired()
	if t.f != nil {
		t.f()
		return
	}
	select {
	case t.c <- Now():
	default:
	}
}

func NewTimer(d Duration) *Timer            { return arm(d, nil) }
func AfterFunc(d Duration, f func()) *Timer { return arm(d, f) }

func (t *Timer) Stop() bool {
	was := !t.done
	t.done = true
	return was
}

func (t *Timer) Reset(d Duration) bool {
	was := !t.done
	t.done = false
	if d <= 0 || simos.ClockMode() == "expired" {
		t.fire()
	}
	return was
}

// Ticker: one tick under the "expired" policy, none otherwise.
type Ticker struct {
	C <-chan Time
	t *Timer
}

func NewTicker(d Duration) *Ticker {
	t := arm(d, nil)
	return &Ticker{C: t.C, t: t}
}
func (k *Ticker) Stop()            { k.t.Stop() }
func (k *Ticker) Reset(d Duration) { k.t.Reset(d) }
