// Package http is the simulator's stand-in for net/http: there is no network
// in the simulation; serving fails at once.
package http

import (
	"errors"
	realhttp "net/http"

	"github.com/josephburnett/jd/v2/verif/simos"
)

type (
	ResponseWriter = realhttp.ResponseWriter
	Request        = realhttp.Request
	Handler        = realhttp.Handler
	HandlerFunc    = realhttp.HandlerFunc
)

const (
	StatusOK                  = realhttp.StatusOK
	StatusNotFound            = realhttp.StatusNotFound
	StatusInternalServerError = realhttp.StatusInternalServerError
)

func HandleFunc(pattern string, handler func(ResponseWriter, *Request)) {
	simos.Note(simos.SNet, "HandleFunc "+pattern)
}
func Handle(pattern string, handler Handler) { simos.Note(simos.SNet, "Handle "+pattern) }
func ListenAndServe(addr string, handler Handler) error {
	simos.Note(simos.SNet, "ListenAndServe "+addr)
	return errors.New("network disabled in simulation")
}
func Error(w ResponseWriter, error string, code int) { realhttp.Error(w, error, code) }
