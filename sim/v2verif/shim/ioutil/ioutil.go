// Package ioutil is the simulator's stand-in for io/ioutil.
package ioutil

import (
	"io"
	"io/fs"

	"github.com/josephburnett/jd/v2/verif/simos"
)

var Discard = io.Discard

// TempFile is the old name of os.CreateTemp; not provided: a tree that needs it
// fails to build against the simulator, which is reported as an infrastructure
// error, never as a violation.

func ReadAll(r io.Reader) ([]byte, error)      { return io.ReadAll(r) }
func NopCloser(r io.Reader) io.ReadCloser      { return io.NopCloser(r) }
func ReadFile(filename string) ([]byte, error) { return simos.ReadFile(filename) }
func WriteFile(filename string, data []byte, perm fs.FileMode) error {
	return simos.WriteFile(filename, data)
}
