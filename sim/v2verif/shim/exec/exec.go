// Package exec is the simulator's stand-in for os/exec: no subprocess can be
// started in the simulation.
package exec

import (
	"errors"
	realos "os"
	"strings"

	"github.com/josephburnett/jd/v2/verif/simos"
)

type Cmd struct {
	Path         string
	Args         []string
	ProcessState *realos.ProcessState
}

var errDisabled = errors.New("subprocesses disabled in simulation")

func Command(name string, arg ...string) *Cmd {
	simos.Note(simos.SExec, name+" "+strings.Join(arg, " "))
	return &Cmd{Path: name, Args: append([]string{name}, arg...)}
}
func (c *Cmd) CombinedOutput() ([]byte, error) { return nil, errDisabled }
func (c *Cmd) Output() ([]byte, error)         { return nil, errDisabled }
func (c *Cmd) Run() error                      { return errDisabled }
func (c *Cmd) Start() error                    { return errDisabled }
func (c *Cmd) Wait() error                     { return errDisabled }
