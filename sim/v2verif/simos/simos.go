// Package simos is the simulated operating system under both jd command line
// front ends. The shim packages (os, ioutil, fmt, log, flag, net/http, os/exec,
// math/rand as seen by the two main.go files) route every effect here.
//
// One simulated process runs at a time, on the simulator's goroutine. Every
// effectful call is a numbered step; a fault plan names steps at which an
// injected failure fires. Nothing in this package reads a real clock, the real
// file system, the environment or a random source.
package simos

import (
	"bytes"
	stdflag "flag"
	"fmt"
	"io"
	"io/fs"
	"runtime"
	"runtime/debug"
	"sort"
	"strings"
	"syscall"
)

// ---------------------------------------------------------------- files

// FS is an in-memory file system: a flat name -> content map (jd never creates
// directories; a name whose directory part is not in Dirs does not exist).
type FS struct {
	Files map[string][]byte
	Dirs  map[string]bool // directories that exist, "." always does
	// ReadOnly marks names whose open-for-write fails with EACCES and
	// Unreadable marks names whose open-for-read fails with EACCES: these are
	// properties of the world, not injected faults.
	ReadOnly   map[string]bool
	Unreadable map[string]bool
	// Links are symbolic links: name -> the name it points to.
	Links map[string]string
	// Fifos are named pipes with a reader attached (`-o >(cmd)`, `mkfifo`):
	// what is written arrives (Files[name] holds what the reader received),
	// there is nothing to truncate, fsync says EINVAL, and a rename onto the
	// name replaces the pipe by a regular file.
	Fifos map[string]bool
	// SizeUnknown marks inputs whose size stat cannot tell: a named pipe a
	// writer feeds, a /proc-like file. Stat reports a pipe of size 0; reading
	// delivers the content all the same.
	SizeUnknown map[string]bool
}

// Cwd is the working directory of every simulated process: names below it
// and relative names are the same files.
const Cwd = "/work"

// Resolve turns a path into the name under which the file system knows the
// file: relative to the working directory, "." and ".." resolved the way the
// kernel does it — component by component, a symbolic link (to a file or to a
// directory) followed before the next component is looked at, so that "a/l/.."
// is the parent of what l points to, not a. A bounded number of links is
// followed.
func (f *FS) Resolve(name string) string {
	if len(f.Links) == 0 && !strings.Contains(name, "/") {
		return name
	}
	if strings.HasPrefix(name, Cwd+"/") {
		name = name[len(Cwd)+1:]
	} else if name == Cwd {
		name = "."
	}
	if strings.HasPrefix(name, "/") {
		return name // outside the working directory: a name of its own (/dev/stdin)
	}
	budget := 16
	var walk func(dir []string, rest []string) []string
	walk = func(dir []string, rest []string) []string {
		for i, c := range rest {
			switch c {
			case "", ".":
				continue
			case "..":
				if len(dir) > 0 {
					dir = dir[:len(dir)-1]
				}
				continue
			}
			cur := strings.Join(append(append([]string(nil), dir...), c), "/")
			if t, ok := f.Links[cur]; ok && budget > 0 {
				budget--
				if strings.HasPrefix(t, "/") {
					// absolute targets below the working directory only
					t = strings.TrimPrefix(strings.TrimPrefix(t, Cwd), "/")
					return walk(nil, append(strings.Split(t, "/"), rest[i+1:]...))
				}
				return walk(dir, append(strings.Split(t, "/"), rest[i+1:]...))
			}
			dir = append(append([]string(nil), dir...), c)
		}
		return dir
	}
	out := walk(nil, strings.Split(name, "/"))
	if len(out) == 0 {
		return "."
	}
	return strings.Join(out, "/")
}

// ResolveParent resolves the directory part of a name and leaves its last
// component alone: what rename, remove and lstat act on is the entry itself,
// link or not.
func (f *FS) ResolveParent(name string) string {
	i := strings.LastIndexByte(name, '/')
	if i <= 0 {
		if strings.HasPrefix(name, "/") {
			return name
		}
		return name
	}
	if strings.HasPrefix(name, "/") && !strings.HasPrefix(name, Cwd+"/") {
		return name
	}
	dir := f.Resolve(name[:i])
	if dir == "." {
		return name[i+1:]
	}
	return dir + "/" + name[i+1:]
}

func NewFS() *FS {
	return &FS{Files: map[string][]byte{}, Dirs: map[string]bool{".": true}, ReadOnly: map[string]bool{}, Unreadable: map[string]bool{}, Links: map[string]string{}, Fifos: map[string]bool{}, SizeUnknown: map[string]bool{}}
}

// RestoreFrom makes f hold what snapshot holds (the snapshot is consumed).
func (f *FS) RestoreFrom(snapshot *FS) { *f = *snapshot }

func (f *FS) Clone() *FS {
	g := NewFS()
	for k, v := range f.Files {
		g.Files[k] = append([]byte(nil), v...)
	}
	for k, v := range f.Dirs {
		g.Dirs[k] = v
	}
	for k, v := range f.ReadOnly {
		g.ReadOnly[k] = v
	}
	for k, v := range f.Unreadable {
		g.Unreadable[k] = v
	}
	for k, v := range f.Links {
		g.Links[k] = v
	}
	for k, v := range f.Fifos {
		g.Fifos[k] = v
	}
	for k, v := range f.SizeUnknown {
		g.SizeUnknown[k] = v
	}
	return g
}

// Names returns the file names in sorted order.
func (f *FS) Names() []string {
	n := make([]string, 0, len(f.Files))
	for k := range f.Files {
		n = append(n, k)
	}
	sort.Strings(n)
	return n
}

func dirOf(name string) string {
	i := strings.LastIndexByte(name, '/')
	if i < 0 {
		return "."
	}
	if i == 0 {
		return "/"
	}
	return name[:i]
}

// ---------------------------------------------------------------- faults

// Fault kinds. Each applies to one kind of step; a fault planned on a step of
// another kind does not fire (and is reported as such).
const (
	FReadEACCES  = "read-eacces"     // open for read fails
	FReadENOENT  = "read-enoent"     // file vanished before open
	FReadEIO     = "read-eio"        // read fails after Param bytes
	FStdinEIO    = "stdin-eio"       // this stdin Read returns (0, EIO)
	FStdinEOF    = "stdin-early-eof" // this stdin Read and all later return (0, EOF)
	FOpenWEACCES = "write-open-eacces"
	FOpenWENOENT = "write-open-enoent"
	FOpenWEROFS  = "write-open-erofs"
	FOpenWENOSPC = "write-open-enospc"
	FWriteENOSPC = "write-short-enospc" // this sector write fails, earlier sectors stay
	FWriteEIO    = "write-short-eio"
	FCloseEIO    = "close-eio" // close reports a deferred write error
	// stdout redirected to a file on a full or failing disk (or to /dev/full):
	// this write delivers at most Param bytes and fails, and so does every
	// later one
	FStdoutENOSPC = "stdout-enospc"
	FStdoutEIO    = "stdout-eio"
	FStderrEIO    = "stderr-eio" // stderr is closed or broken: messages are lost
	FKill        = "kill"      // process dies at this step (before its effect)
)

type Fault struct {
	Step  int    `json:"step"` // 0-based step number inside the process
	Kind  string `json:"kind"`
	Param int    `json:"param,omitempty"`
}

// Step kinds.
const (
	SReadFile  = "readfile"
	SStdinRead = "stdin-read"
	SOpenWrite = "open-write"
	SWrite     = "write-sector"
	SClose     = "close"
	SOpenRead  = "open-read"
	SFileRead  = "file-read"
	SStdout    = "stdout"
	SStdout0   = "stdout-empty" // a write of zero bytes: cannot fail
	SStderr    = "stderr"
	SExit      = "exit"
	SGetenv    = "getenv"
	SNet       = "net"
	SExec      = "exec"
	SRand      = "rand"
)

var applies = map[string][]string{
	SReadFile:  {FReadEACCES, FReadENOENT, FReadEIO, FKill},
	SOpenRead:  {FReadEACCES, FReadENOENT, FKill},
	SFileRead:  {FReadEIO, FKill},
	SStdinRead: {FStdinEIO, FStdinEOF, FKill},
	SOpenWrite: {FOpenWEACCES, FOpenWENOENT, FOpenWEROFS, FOpenWENOSPC, FKill},
	SWrite:     {FWriteENOSPC, FWriteEIO, FKill},
	SClose:     {FCloseEIO, FKill},
	SStdout:    {FStdoutENOSPC, FStdoutEIO, FKill},
	SStderr:    {FStderrEIO, FKill},
}

// Applicable lists the fault kinds that can fire on a step kind.
func Applicable(stepKind string) []string { return applies[stepKind] }

type StepRec struct {
	N      int    `json:"n"`
	Kind   string `json:"kind"`
	Arg    string `json:"arg,omitempty"`
	Result string `json:"result,omitempty"`
	Fault  string `json:"fault,omitempty"`
}

// ---------------------------------------------------------------- streams

// Stream is the stdin of a process.
type Stream struct {
	Data []byte
	// Plan is the chunk plan: the i-th Read delivers at most Plan[i%len] bytes;
	// an entry 0 is a (0, nil) read. Empty plan = as much as the caller asks.
	Plan []int
	// EOFWithData: the Read that delivers the last bytes also returns io.EOF.
	EOFWithData bool
	// Redirect: stdin is a regular file (shell "<"), so Stat reports its size;
	// otherwise it is a pipe.
	Redirect bool
	// Skip: bytes of a redirected stdin that the parent had consumed before the
	// process started (`{ read hdr; jd a; } < file`): descriptor 0 continues
	// behind them, while opening /dev/stdin anew starts at byte 0 of the file.
	Skip int
	pos  int
	reads    int
	dead     bool // early EOF fired
	broken   bool // EIO fired: the device stays failed
	zeros    int
}

// ---------------------------------------------------------------- process

type ExitPanic struct{ Code int }
type KillPanic struct{ Step int }

// StepLimitPanic ends a process that has made more I/O calls than any
// terminating jd run can make: a deterministic verdict of non-termination for
// loops that do I/O (a loop that only computes is left to the wall-clock
// watchdog of the worker).
type StepLimitPanic struct{ Steps int }

// MaxSteps bounds the I/O steps of one simulated process. The largest honest
// runs (an 80 KB file read byte by byte, an 80 KB result written in 8-byte
// sectors) stay below a tenth of it.
const MaxSteps = 1 << 20

type Proc struct {
	Bin    string
	Argv   []string // Argv[0] is the program name
	Env    map[string]string
	FS     *FS
	Stdin  *Stream
	Sector int // sector size for file writes, >=1
	// FileChunk bounds how many bytes one Read of an open regular file
	// delivers (0 = as much as asked): short reads are legal for any reader.
	FileChunk int
	// StdoutTTY: stdout (and stderr) is a terminal, i.e. a character device;
	// otherwise a pipe.
	StdoutTTY bool
	Faults    []Fault

	Stdout bytes.Buffer
	Stderr bytes.Buffer
	// a failed stdout or stderr stays failed (the disk stays full)
	stdoutErr, stderrErr syscall.Errno
	// named pipes whose only writer has closed them: the reader is gone
	fifoDone map[string]bool
	Steps  []StepRec
	Fired  []Fault
	Clock  int64 // logical clock: one tick per step

	Exited bool
	// gone is set the moment the process ends by exit, kill or the step limit.
	// A real process is gone at that instant: deferred functions do not run,
	// buffers are not flushed, a recover() sees nothing. Here the end travels
	// up the stack as a panic, so deferred code of the program does run; any
	// attempt it makes to touch the simulated OS re-raises the end instead of
	// having an effect, and a recover() in the program cannot cancel it.
	gone     any
	finished bool
	Code     int
	Killed   bool
	Runaway  bool   // ended by the step limit: it would never have ended by itself
	Crash    string // non-empty: panic value
	CrashAt  string // first jd frame of the panic stack
	Stack    string
}

// Reset rewinds the stream to its beginning.
func (s *Stream) Reset() { s.pos, s.reads, s.dead, s.broken, s.zeros = s.Skip, 0, false, false, 0 }

// Cur is the running process. There is exactly one at a time.
var Cur *Proc

var argsSetters []func([]string)

var resetters []func()

// OnReset registers a function that puts a package's global variables back to
// their initial values (generated by the instrumenter).
func OnReset(f func()) { resetters = append(resetters, f) }

var processStarters []func()

// OnProcessStart registers the generated function that re-initialises a main
// package (variables in initialisation order, flag definitions, init functions).
func OnProcessStart(f func()) { processStarters = append(processStarters, f) }

// ResetGlobals runs every registered resetter: what follows behaves like a
// fresh operating-system process as far as package-level state goes. Library
// packages get their plain initial values back; main packages are initialised
// again from scratch, which defines their flags anew on fresh flag sets.
func ResetGlobals() {
	for _, f := range resetters {
		f()
	}
	if len(processStarters) > 0 {
		flagSets = map[string]*stdflag.FlagSet{}
		for _, f := range processStarters {
			f()
		}
	}
}

// OnArgs registers a callback that receives argv when a process starts (the os
// shim uses it to keep its Args variable current).
func OnArgs(f func([]string)) { argsSetters = append(argsSetters, f) }

// leave takes the calling goroutine out of a process that has ended: the main
// goroutine unwinds to Run with a panic; any other goroutine simply stops, and
// the scheduler is told that the process is over.
func (p *Proc) leave() {
	if Scheduled() && !IsMainGoroutine() {
		SchedOver()
		runtime.Goexit()
	}
	panic(p.gone)
}

func (p *Proc) step(kind, arg string) (rec *StepRec, fault *Fault) {
	if p.gone != nil {
		p.leave()
	}
	Yield(kind)
	if p.gone != nil {
		p.leave()
	}
	n := len(p.Steps)
	if n >= MaxSteps {
		p.gone = StepLimitPanic{n}
		p.leave()
	}
	p.Clock++
	p.Steps = append(p.Steps, StepRec{N: n, Kind: kind, Arg: arg})
	rec = &p.Steps[n]
	for i := range p.Faults {
		f := &p.Faults[i]
		if f.Step != n {
			continue
		}
		ok := false
		for _, k := range applies[kind] {
			if k == f.Kind {
				ok = true
			}
		}
		if !ok {
			continue
		}
		rec.Fault = f.Kind
		p.Fired = append(p.Fired, *f)
		if f.Kind == FKill {
			rec.Result = "killed"
			p.gone = KillPanic{n}
			p.leave()
		}
		return rec, f
	}
	return rec, nil
}

// Run executes mainFn as process p and records how it ended.
func Run(p *Proc, flagSet string, mainFn func()) {
	if p.Sector < 1 {
		p.Sector = 512
	}
	if p.Stdin == nil {
		p.Stdin = &Stream{}
	}
	if p.Env == nil {
		p.Env = map[string]string{}
	}
	if p.Stdin.pos < p.Stdin.Skip && p.Stdin.Skip <= len(p.Stdin.Data) {
		p.Stdin.pos = p.Stdin.Skip
	}
	if p.Stdin.Redirect {
		// the file stdin was redirected from can be opened once more by name
		p.FS.Files[DevStdin] = p.Stdin.Data
	}
	Cur = p
	for _, f := range argsSetters {
		f(append([]string(nil), p.Argv...))
	}
	ResetGlobals()
	ResetFlags(flagSet)
	defer func() {
		r := recover()
		p.Finish(r, string(debug.Stack()))
	}()
	mainFn()
}

// Finish records how the process ended. r is what the main goroutine's panic
// carried (nil: main returned). It is idempotent: the first end counts.
func (p *Proc) Finish(r any, stack string) {
	if p.finished {
		return
	}
	p.finished = true
	Cur = nil
	delete(p.FS.Files, DevStdin)
	if p.gone != nil {
		// however the program's own deferred code ended (it may have
		// recovered the end and returned, or panicked on its own), the
		// process had ended before any of it ran
		r = p.gone
	}
	switch v := r.(type) {
	case nil:
		p.Exited, p.Code = true, 0
		p.Steps = append(p.Steps, StepRec{N: len(p.Steps), Kind: SExit, Arg: "return", Result: "0"})
	case ExitPanic:
		p.Exited, p.Code = true, v.Code
	case KillPanic:
		p.Killed, p.Code = true, 137
	case StepLimitPanic:
		p.Runaway, p.Code = true, 137
	case CrashPanic:
		p.Crash = v.Value
		p.Stack = v.Stack
		p.CrashAt = FirstFrame(p.Stack)
		p.Code = 2
	default:
		p.Crash = fmt.Sprint(r)
		p.Stack = stack
		p.CrashAt = FirstFrame(p.Stack)
		p.Code = 2 // what a Go panic exits with
	}
}

// Finished reports whether the end of the process has been recorded.
func (p *Proc) Finished() bool { return p.finished }

// CrashPanic is how the crash of a goroutine other than the main one ends the
// process: the Go runtime prints the panic with a stack trace and exits 2.
type CrashPanic struct {
	Value string
	Stack string
}

// FirstFrame finds the innermost frame of the panic stack that belongs to jd
// (library or front end), skipping the runtime and the simulator.
func FirstFrame(stack string) string {
	lines := strings.Split(stack, "\n")
	seenPanic := false
	for i := 0; i+1 < len(lines); i++ {
		l := lines[i]
		if strings.HasPrefix(l, "panic(") {
			seenPanic = true
			continue
		}
		if !seenPanic {
			continue
		}
		if strings.HasPrefix(l, "\t") || l == "" {
			continue
		}
		if !strings.Contains(l, "josephburnett/jd") || strings.Contains(l, "/verif/") || strings.Contains(l, "/verifsim") {
			continue
		}
		loc := strings.TrimSpace(lines[i+1])
		if j := strings.Index(loc, " +0x"); j >= 0 {
			loc = loc[:j]
		}
		if j := strings.Index(loc, "/repo/"); j >= 0 {
			loc = loc[j+len("/repo/"):]
		}
		fn := l
		if j := strings.LastIndexByte(fn, '('); j > 0 {
			fn = fn[:j]
		}
		if j := strings.LastIndexByte(fn, '/'); j >= 0 {
			fn = fn[j+1:]
		}
		return fn + " " + loc
	}
	return "?"
}

// ---------------------------------------------------------------- calls

func pathErr(op, name string, e syscall.Errno) error {
	return &fs.PathError{Op: op, Path: name, Err: e}
}

// Exit implements os.Exit.
func Exit(code int) {
	p := Cur
	if p.gone != nil {
		p.leave()
	}
	p.Steps = append(p.Steps, StepRec{N: len(p.Steps), Kind: SExit, Result: fmt.Sprint(code)})
	p.gone = ExitPanic{code}
	p.leave()
}

// DevStdin names the standard input of the process. When stdin is a regular
// file it is that file (opened anew: from its first byte); when stdin is a
// pipe, reading the name consumes the pipe.
const DevStdin = "/dev/stdin"

// ReadFile implements os.ReadFile / ioutil.ReadFile: one step.
func ReadFile(name string) ([]byte, error) {
	p := Cur
	if name == DevStdin && !p.Stdin.Redirect {
		var all []byte
		buf := make([]byte, 512)
		for {
			n, err := p.stdinRead(buf)
			all = append(all, buf[:n]...)
			if err == io.EOF {
				return all, nil
			}
			if err != nil {
				return all, err
			}
		}
	}
	rec, f := p.step(SReadFile, name)
	name = p.FS.Resolve(name)
	if f != nil {
		switch f.Kind {
		case FReadEACCES:
			rec.Result = "EACCES"
			return nil, pathErr("open", name, syscall.EACCES)
		case FReadENOENT:
			rec.Result = "ENOENT"
			return nil, pathErr("open", name, syscall.ENOENT)
		case FReadEIO:
			data := p.FS.Files[name]
			k := f.Param
			if k > len(data) {
				k = len(data)
			}
			rec.Result = fmt.Sprintf("EIO@%d", k)
			return append([]byte(nil), data[:k]...), pathErr("read", name, syscall.EIO)
		}
	}
	if p.FS.Dirs[name] {
		rec.Result = "EISDIR"
		return nil, pathErr("read", name, syscall.EISDIR)
	}
	data, ok := p.FS.Files[name]
	if !ok {
		rec.Result = "ENOENT"
		return nil, pathErr("open", name, syscall.ENOENT)
	}
	if p.FS.Unreadable[name] {
		rec.Result = "EACCES"
		return nil, pathErr("open", name, syscall.EACCES)
	}
	rec.Result = fmt.Sprintf("ok %d", len(data))
	return append([]byte(nil), data...), nil
}

// Handle is an open file.
type Handle struct {
	Name            string
	write           bool
	app             bool // O_APPEND
	wpos            int
	lastAt, lastLen int // the last sector written through this handle
	rpos            int
	closed          bool
	std             int // 0 stdin, 1 stdout, 2 stderr, -1 regular
}

var (
	HStdin  = &Handle{Name: "/dev/stdin", std: 0}
	HStdout = &Handle{Name: "/dev/stdout", std: 1, write: true}
	HStderr = &Handle{Name: "/dev/stderr", std: 2, write: true}
)

// Open flags understood by OpenFile (values of package os/syscall on linux).
const (
	oWRONLY = 0x1
	oRDWR   = 0x2
	oAPPEND = 0x400
	oCREATE = 0x40
	oEXCL   = 0x80
	oTRUNC  = 0x200
)

// OpenFile implements os.OpenFile on the simulated disk.
func OpenFile(name string, flag int) (*Handle, error) {
	p := Cur
	name = p.FS.Resolve(name)
	if name == DevStdin && !p.Stdin.Redirect && flag&(oWRONLY|oRDWR) == 0 {
		p.step(SOpenRead, name)
		return HStdin, nil
	}
	if flag&(oWRONLY|oRDWR) == 0 {
		rec, f := p.step(SOpenRead, name)
		if f != nil {
			switch f.Kind {
			case FReadEACCES:
				rec.Result = "EACCES"
				return nil, pathErr("open", name, syscall.EACCES)
			case FReadENOENT:
				rec.Result = "ENOENT"
				return nil, pathErr("open", name, syscall.ENOENT)
			}
		}
		if _, ok := p.FS.Files[name]; !ok {
			rec.Result = "ENOENT"
			return nil, pathErr("open", name, syscall.ENOENT)
		}
		if p.FS.Unreadable[name] {
			rec.Result = "EACCES"
			return nil, pathErr("open", name, syscall.EACCES)
		}
		rec.Result = "ok"
		return &Handle{Name: name, std: -1}, nil
	}
	rec, f := p.step(SOpenWrite, name)
	if f != nil {
		var e syscall.Errno
		switch f.Kind {
		case FOpenWEACCES:
			e = syscall.EACCES
		case FOpenWENOENT:
			e = syscall.ENOENT
		case FOpenWEROFS:
			e = syscall.EROFS
		case FOpenWENOSPC:
			e = syscall.ENOSPC
		}
		rec.Result = e.Error()
		return nil, pathErr("open", name, e)
	}
	if p.FS.Dirs[name] {
		rec.Result = "EISDIR"
		return nil, pathErr("open", name, syscall.EISDIR)
	}
	if !p.FS.Dirs[dirOf(name)] {
		rec.Result = "ENOENT"
		return nil, pathErr("open", name, syscall.ENOENT)
	}
	_, exists := p.FS.Files[name]
	if exists && p.FS.ReadOnly[name] {
		rec.Result = "EACCES"
		return nil, pathErr("open", name, syscall.EACCES)
	}
	if !exists && flag&oCREATE == 0 {
		rec.Result = "ENOENT"
		return nil, pathErr("open", name, syscall.ENOENT)
	}
	if exists && flag&oEXCL != 0 && flag&oCREATE != 0 {
		rec.Result = "EEXIST"
		return nil, pathErr("open", name, syscall.EEXIST)
	}
	if p.FS.Fifos[name] {
		if p.fifoDone[name] {
			// the reader saw end of file when the first writer closed the
			// pipe and is gone: opening it for writing now blocks for ever
			rec.Result = "blocks: nobody reads the pipe any more"
			p.gone = StepLimitPanic{len(p.Steps)}
			p.leave()
		}
		// nothing to truncate; every write appends to what the reader has
		rec.Result = "ok (fifo)"
		return &Handle{Name: name, write: true, app: true, std: -1}, nil
	}
	if !exists || flag&oTRUNC != 0 {
		p.FS.Files[name] = []byte{}
	}
	rec.Result = "ok"
	return &Handle{Name: name, write: true, app: flag&oAPPEND != 0, std: -1}, nil
}

// Write implements (*os.File).Write. A regular file is written sector by
// sector, each sector one step; stdout and stderr are one step per call.
func (h *Handle) Write(b []byte) (int, error) {
	p := Cur
	switch h.std {
	case 1:
		if len(b) == 0 {
			rec, _ := p.step(SStdout0, "")
			rec.Result = "ok 0"
			return 0, nil
		}
		rec, f := p.step(SStdout, "")
		k := 0
		if f != nil && (f.Kind == FStdoutENOSPC || f.Kind == FStdoutEIO) {
			p.stdoutErr = syscall.ENOSPC
			if f.Kind == FStdoutEIO {
				p.stdoutErr = syscall.EIO
			}
			if k = f.Param; k >= len(b) {
				k = len(b) - 1 // the write fails: at least one byte is lost
			}
		}
		if p.stdoutErr != 0 {
			p.Stdout.Write(b[:k])
			rec.Result = fmt.Sprintf("%s after %d", p.stdoutErr.Error(), k)
			return k, pathErr("write", h.Name, p.stdoutErr)
		}
		p.Stdout.Write(b)
		rec.Result = fmt.Sprintf("ok %d", len(b))
		return len(b), nil
	case 2:
		rec, f := p.step(SStderr, "")
		if f != nil && f.Kind == FStderrEIO {
			p.stderrErr = syscall.EIO
		}
		if p.stderrErr != 0 {
			rec.Result = p.stderrErr.Error()
			return 0, pathErr("write", h.Name, p.stderrErr)
		}
		p.Stderr.Write(b)
		rec.Result = fmt.Sprintf("ok %d", len(b))
		return len(b), nil
	case 0:
		return 0, pathErr("write", h.Name, syscall.EBADF)
	}
	if h.closed {
		return 0, pathErr("write", h.Name, syscall.Errno(0)) // os.ErrClosed text differs; never reached by jd
	}
	if !h.write {
		return 0, pathErr("write", h.Name, syscall.EBADF)
	}
	written := 0
	if len(b) == 0 {
		return 0, nil
	}
	for written < len(b) {
		n := p.Sector
		if n > len(b)-written {
			n = len(b) - written
		}
		rec, f := p.step(SWrite, h.Name)
		if f != nil {
			e := syscall.ENOSPC
			if f.Kind == FWriteEIO {
				e = syscall.EIO
			}
			rec.Result = fmt.Sprintf("%s after %d", e.Error(), written)
			return written, pathErr("write", h.Name, e)
		}
		cur := p.FS.Files[h.Name]
		if h.app || h.wpos > len(cur) {
			h.wpos = len(cur)
		}
		if end := h.wpos + n; end > len(cur) {
			cur = append(cur, make([]byte, end-len(cur))...)
		}
		copy(cur[h.wpos:], b[written:written+n])
		h.lastAt, h.lastLen = h.wpos, n
		h.wpos += n
		p.FS.Files[h.Name] = cur
		rec.Result = fmt.Sprintf("ok %d", n)
		written += n
	}
	return written, nil
}

// Read implements (*os.File).Read.
func (h *Handle) Read(b []byte) (int, error) {
	p := Cur
	if h.std == 0 {
		return p.stdinRead(b)
	}
	if h.std > 0 || h.write {
		return 0, pathErr("read", h.Name, syscall.EBADF)
	}
	rec, f := p.step(SFileRead, h.Name)
	if f != nil && f.Kind == FReadEIO {
		rec.Result = "EIO"
		return 0, pathErr("read", h.Name, syscall.EIO)
	}
	data := p.FS.Files[h.Name]
	if h.rpos >= len(data) {
		rec.Result = "EOF"
		return 0, io.EOF
	}
	want := len(b)
	if p.FileChunk > 0 && p.FileChunk < want {
		want = p.FileChunk
	}
	n := copy(b[:want], data[h.rpos:])
	h.rpos += n
	rec.Result = fmt.Sprintf("ok %d", n)
	return n, nil
}

// Info is what Stat reports.
type Info struct {
	Name  string
	Size  int64
	Dir   bool
	Pipe  bool
	Char  bool
	Link  bool
	Clock int64
}

// Stat implements os.Stat on the simulated disk.
// Lstat implements os.Lstat: a symbolic link is reported as such.
func Lstat(name string) (Info, error) {
	p := Cur
	name = p.FS.ResolveParent(name)
	if _, ok := p.FS.Links[name]; ok {
		p.Steps = append(p.Steps, StepRec{N: len(p.Steps), Kind: "lstat", Arg: name})
		return Info{Name: name, Link: true, Clock: p.Clock}, nil
	}
	return Stat(name)
}

func Stat(name string) (Info, error) {
	p := Cur
	p.Steps = append(p.Steps, StepRec{N: len(p.Steps), Kind: "stat", Arg: name})
	name = p.FS.Resolve(name)
	if name == DevStdin && !p.Stdin.Redirect {
		return Info{Name: name, Pipe: true, Clock: p.Clock}, nil
	}
	if p.FS.Dirs[name] {
		return Info{Name: name, Dir: true, Clock: p.Clock}, nil
	}
	d, ok := p.FS.Files[name]
	if !ok {
		return Info{}, pathErr("stat", name, syscall.ENOENT)
	}
	if p.FS.Fifos[name] || p.FS.SizeUnknown[name] {
		return Info{Name: name, Pipe: true, Clock: p.Clock}, nil
	}
	return Info{Name: name, Size: int64(len(d)), Clock: p.Clock}, nil
}

// Stat implements (*os.File).Stat.
func (h *Handle) Stat() (Info, error) {
	p := Cur
	switch h.std {
	case 0:
		if p.Stdin != nil && p.Stdin.Redirect {
			return Info{Name: "stdin", Size: int64(len(p.Stdin.Data)), Clock: p.Clock}, nil
		}
		return Info{Name: "stdin", Pipe: true, Clock: p.Clock}, nil
	case 1, 2:
		if p.StdoutTTY {
			return Info{Name: h.Name, Char: true, Clock: p.Clock}, nil
		}
		return Info{Name: h.Name, Pipe: true, Clock: p.Clock}, nil
	}
	if p.FS.Fifos[h.Name] || p.FS.SizeUnknown[h.Name] {
		return Info{Name: h.Name, Pipe: true, Clock: p.Clock}, nil
	}
	return Info{Name: h.Name, Size: int64(len(p.FS.Files[h.Name])), Clock: p.Clock}, nil
}

// Seek implements (*os.File).Seek for a regular file open for reading; pipes
// and inputs of unknown size cannot seek.
func (h *Handle) Seek(offset int64, whence int) (int64, error) {
	p := Cur
	p.Steps = append(p.Steps, StepRec{N: len(p.Steps), Kind: "seek", Arg: h.Name})
	if h.std >= 0 && !(h.std == 0 && p.Stdin.Redirect) || p.FS.Fifos[h.Name] || p.FS.SizeUnknown[h.Name] {
		return 0, pathErr("seek", h.Name, syscall.ESPIPE)
	}
	if h.std == 0 {
		s := p.Stdin
		base := map[int]int{0: 0, 1: s.pos, 2: len(s.Data)}[whence]
		if np := base + int(offset); np >= 0 {
			s.pos = np
			return int64(np), nil
		}
		return 0, pathErr("seek", h.Name, syscall.EINVAL)
	}
	size := len(p.FS.Files[h.Name])
	cur := h.rpos
	if h.write {
		cur = h.wpos
	}
	base := map[int]int{0: 0, 1: cur, 2: size}[whence]
	np := base + int(offset)
	if np < 0 {
		return 0, pathErr("seek", h.Name, syscall.EINVAL)
	}
	if h.write {
		h.wpos = np
	} else {
		h.rpos = np
	}
	return int64(np), nil
}

// Sync implements (*os.File).Sync: pipes, terminals and named pipes have
// nothing to synchronise and say EINVAL, as the real ones do.
func (h *Handle) Sync() error {
	p := Cur
	p.Steps = append(p.Steps, StepRec{N: len(p.Steps), Kind: "fsync", Arg: h.Name})
	if h.std >= 0 || p.FS.Fifos[h.Name] {
		return pathErr("sync", h.Name, syscall.EINVAL)
	}
	return nil
}

// Remove implements os.Remove.
func Remove(name string) error {
	p := Cur
	p.Steps = append(p.Steps, StepRec{N: len(p.Steps), Kind: "remove", Arg: name})
	name = p.FS.ResolveParent(name)
	if _, ok := p.FS.Links[name]; ok {
		delete(p.FS.Links, name) // removes the link, not what it points to
		return nil
	}
	if p.FS.Dirs[name] {
		// a directory goes only when it is empty
		for _, n := range p.FS.Names() {
			if strings.HasPrefix(n, name+"/") {
				return pathErr("remove", name, syscall.ENOTEMPTY)
			}
		}
		for d := range p.FS.Dirs {
			if strings.HasPrefix(d, name+"/") {
				return pathErr("remove", name, syscall.ENOTEMPTY)
			}
		}
		delete(p.FS.Dirs, name)
		return nil
	}
	if _, ok := p.FS.Files[name]; !ok {
		return pathErr("remove", name, syscall.ENOENT)
	}
	delete(p.FS.Files, name)
	delete(p.FS.Fifos, name)
	return nil
}

// Rename implements os.Rename (atomic replace).
func Rename(from, to string) error {
	p := Cur
	p.Steps = append(p.Steps, StepRec{N: len(p.Steps), Kind: "rename", Arg: from + " -> " + to})
	from, to = p.FS.ResolveParent(from), p.FS.ResolveParent(to)
	d, ok := p.FS.Files[from]
	if !ok {
		return &fs.PathError{Op: "rename", Path: from, Err: syscall.ENOENT}
	}
	if !p.FS.Dirs[dirOf(to)] || p.FS.Dirs[to] {
		return &fs.PathError{Op: "rename", Path: to, Err: syscall.ENOENT}
	}
	delete(p.FS.Links, to) // rename replaces a symbolic link itself, it does not follow it
	delete(p.FS.Fifos, to) // and a named pipe: what is there afterwards is a regular file
	delete(p.FS.SizeUnknown, to)
	p.FS.Files[to] = d
	delete(p.FS.Files, from)
	return nil
}

// Mkdir implements os.Mkdir / os.MkdirAll.
func Mkdir(name string) error {
	p := Cur
	p.Steps = append(p.Steps, StepRec{N: len(p.Steps), Kind: "mkdir", Arg: name})
	name = p.FS.Resolve(name)
	if _, isFile := p.FS.Files[name]; isFile {
		return pathErr("mkdir", name, syscall.EEXIST)
	}
	for d := name; d != "." && d != "/" && d != ""; d = dirOf(d) {
		if _, isFile := p.FS.Files[d]; isFile {
			return pathErr("mkdir", name, syscall.ENOTDIR)
		}
		p.FS.Dirs[d] = true
	}
	return nil
}

// Truncate implements (*os.File).Truncate for a file open for writing.
func (h *Handle) Truncate(size int64) error {
	p := Cur
	if h.std >= 0 || !h.write || p.FS.Fifos[h.Name] {
		return pathErr("truncate", h.Name, syscall.EINVAL)
	}
	d := p.FS.Files[h.Name]
	if int(size) <= len(d) {
		p.FS.Files[h.Name] = d[:size]
	} else {
		p.FS.Files[h.Name] = append(d, make([]byte, int(size)-len(d))...)
	}
	return nil
}

func (h *Handle) Close() error {
	p := Cur
	if h.std >= 0 {
		return nil
	}
	if h.closed {
		return pathErr("close", h.Name, syscall.EBADF)
	}
	h.closed = true
	if !h.write {
		return nil
	}
	if p.FS.Fifos[h.Name] {
		if p.fifoDone == nil {
			p.fifoDone = map[string]bool{}
		}
		p.fifoDone[h.Name] = true
	}
	rec, f := p.step(SClose, h.Name)
	if f != nil && f.Kind == FCloseEIO {
		// close reports a deferred write error: the last sector written
		// through this handle never reached the medium
		if cur := p.FS.Files[h.Name]; h.lastLen > 0 && h.lastAt+h.lastLen <= len(cur) && h.lastAt+h.lastLen == len(cur) {
			p.FS.Files[h.Name] = cur[:h.lastAt]
		}
		rec.Result = "EIO"
		return pathErr("close", h.Name, syscall.EIO)
	}
	rec.Result = "ok"
	return nil
}

func (p *Proc) stdinRead(b []byte) (int, error) {
	s := p.Stdin
	rec, f := p.step(SStdinRead, fmt.Sprint(len(b)))
	if f != nil {
		switch f.Kind {
		case FStdinEIO:
			// a failed device stays failed: every later read fails too
			s.broken = true
		case FStdinEOF:
			s.dead = true
		}
	}
	if s.broken {
		rec.Result = "EIO"
		return 0, pathErr("read", "/dev/stdin", syscall.EIO)
	}
	if s.dead {
		rec.Result = "EOF(early)"
		return 0, io.EOF
	}
	if len(b) == 0 {
		rec.Result = "ok 0"
		return 0, nil
	}
	if s.pos >= len(s.Data) {
		rec.Result = "EOF"
		return 0, io.EOF
	}
	want := len(b)
	if len(s.Plan) > 0 {
		c := s.Plan[s.reads%len(s.Plan)]
		s.reads++
		if c == 0 {
			// a (0, nil) read is legal but discouraged; allow a bounded number
			s.zeros++
			if s.zeros <= 8 {
				rec.Result = "ok 0"
				return 0, nil
			}
			c = 1
		}
		if c < want {
			want = c
		}
	}
	n := copy(b[:want], s.Data[s.pos:])
	s.pos += n
	if s.pos >= len(s.Data) && s.EOFWithData {
		rec.Result = fmt.Sprintf("ok %d+EOF", n)
		return n, io.EOF
	}
	rec.Result = fmt.Sprintf("ok %d", n)
	return n, nil
}

// WriteFile implements os.WriteFile / ioutil.WriteFile with the semantics of
// the real one: open(O_WRONLY|O_CREATE|O_TRUNC), one Write, Close; the first
// error wins.
func WriteFile(name string, data []byte) error {
	h, err := OpenFile(name, oWRONLY|oCREATE|oTRUNC)
	if err != nil {
		return err
	}
	_, err = h.Write(data)
	if err1 := h.Close(); err1 != nil && err == nil {
		err = err1
	}
	return err
}

func Getenv(k string) string {
	p := Cur
	if p == nil {
		return "" // program start, before any simulated process exists
	}
	p.Steps = append(p.Steps, StepRec{N: len(p.Steps), Kind: SGetenv, Arg: k})
	return p.Env[k]
}

// Stamp is the timestamp log lines carry: a function of the logical clock only.
func Stamp() string {
	p := Cur
	t := p.Clock
	return fmt.Sprintf("2000/01/01 00:%02d:%02d ", (t/60)%60, t%60)
}

// Note records a stubbed effect (network, subprocess, random).
func Note(kind, arg string) {
	p := Cur
	p.Steps = append(p.Steps, StepRec{N: len(p.Steps), Kind: kind, Arg: arg, Result: "stub"})
}

// ---------------------------------------------------------------- flags

var flagSets = map[string]*stdflag.FlagSet{}

// Flags returns the flag set of a binary, creating it on first use. The set
// behaves like flag.CommandLine: errors print a message and usage to stderr
// and exit with status 2, -h/-help exits 0.
func Flags(name string) *stdflag.FlagSet {
	fs, ok := flagSets[name]
	if !ok {
		fs = stdflag.NewFlagSet(name, stdflag.ContinueOnError)
		fs.SetOutput(HStderr)
		flagSets[name] = fs
	}
	return fs
}

// ResetFlags puts every flag of the set back to its default.
func ResetFlags(name string) {
	fs, ok := flagSets[name]
	if !ok {
		return
	}
	fs.VisitAll(func(f *stdflag.Flag) { _ = f.Value.Set(f.DefValue) })
}

// ParseFlags implements flag.Parse for the current process.
func ParseFlags(name string) {
	fs := Flags(name)
	p := Cur
	// the flag package names the program in its usage line
	fs.Init(p.Argv[0], stdflag.ContinueOnError)
	fs.SetOutput(HStderr)
	err := fs.Parse(p.Argv[1:])
	if err == nil {
		return
	}
	if err == stdflag.ErrHelp {
		Exit(0)
	}
	Exit(2)
}
