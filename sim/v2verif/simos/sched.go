package simos

import (
	"bytes"
	"fmt"
	"runtime"
	"sort"
	"strconv"
	"sync"
	"sync/atomic"
	"testing"
	"testing/synctest"
)

// The goroutine scheduler. jd as it stands starts no goroutine; a tree that
// does (parallel diffing, the two inputs read concurrently, a worker pool) has
// interleavings, and which one happens is then the simulator's decision, not
// the machine's: every simulated process (or library call) of such a tree runs
// inside a testing/synctest bubble. Its goroutines park at yield points - the
// instrumenter puts one at every go statement, channel operation, select,
// lock and wait, and every simulated system call is one; when all goroutines of
// the bubble are durably blocked the scheduler releases exactly one parked
// goroutine, chosen by a PRNG seeded from the case among the parked goroutines
// sorted by identity. Identities are deterministic: the main goroutine is "0",
// the n-th goroutine it starts is "0.n", and so on. One schedule seed is one
// exactly repeatable interleaving.
//
// A process whose main goroutine is blocked while nothing is parked and
// nothing can wake it is what the Go runtime reports as "all goroutines are
// asleep - deadlock!" (a fatal error, status 2): the scheduler reports the
// same. When the main goroutine ends, or the process exits, the other
// goroutines cease to exist: parked ones are released into runtime.Goexit.

// TreeHasGoroutines is set by generated code when the instrumenter found a go
// statement in the tree under test. When false nothing here is ever used.
var TreeHasGoroutines bool

// T is the *testing.T the simulator runs under (synctest needs one).
var T *testing.T

type gor struct {
	id     string
	kids   int
	site   string
	grant  chan struct{}
	killed bool
}

type schedState struct {
	mu      sync.Mutex
	byGoid  map[uint64]*gor
	pending []*gor
	seed    uint64
	over    bool
	crash   *CrashPanic
	alive   atomic.Int64 // goroutines announced and not yet ended
	selects uint64
}

var sched *schedState

// SchedStats counts what the scheduler did since it was last read.
var SchedStats struct {
	Runs      int64 // bubbles
	Spawned   int64 // goroutines announced by go statements
	Decisions int64 // releases with more than one candidate
	Deadlocks int64
}

// NeedScheduler ends a run that reached a go statement outside the scheduler.
type NeedScheduler struct{}

var tripArmed, tripped bool

// ArmTrip makes the next go statement outside the scheduler abort the run.
func ArmTrip(on bool) { tripArmed, tripped = on, false }

// Tripped reports whether that happened since ArmTrip(true).
func Tripped() bool { return tripped }

// Scheduled reports whether the caller runs under the scheduler.
func Scheduled() bool { return sched != nil }

// IsMainGoroutine reports whether the caller is goroutine "0" of the bubble.
func IsMainGoroutine() bool {
	s := sched
	if s == nil {
		return true
	}
	return s.me().id == "0"
}

// SchedOver tells the scheduler that the process has ended (exit called by a
// goroutine other than the main one, or a goroutine crashed): everything still
// parked is released to die.
func SchedOver() {
	if s := sched; s != nil {
		s.mu.Lock()
		s.over = true
		s.mu.Unlock()
	}
}

// GoroutineCrashed is called (by the handler the instrumenter puts at the top
// of every goroutine body) with the value of a panic nobody recovered. In a
// real process that is the end: the runtime prints the panic and a stack trace
// and exits with status 2, whatever the other goroutines were doing.
func GoroutineCrashed(r any) {
	buf := make([]byte, 1<<16)
	stack := string(buf[:runtime.Stack(buf, false)])
	s := sched
	if s == nil {
		panic(r) // no scheduler: nothing can catch it here either
	}
	if _, isEnd := r.(ExitPanic); isEnd {
		runtime.Goexit()
	}
	s.mu.Lock()
	if s.crash == nil {
		s.crash = &CrashPanic{Value: fmt.Sprint(r), Stack: stack}
	}
	s.over = true
	s.mu.Unlock()
	if p := Cur; p != nil && p.gone == nil {
		p.gone = *s.crash
	}
	runtime.Goexit()
}

func goid() uint64 {
	var buf [64]byte
	b := buf[:runtime.Stack(buf[:], false)]
	b = bytes.TrimPrefix(b, []byte("goroutine "))
	i := bytes.IndexByte(b, ' ')
	if i < 0 {
		return 0
	}
	n, _ := strconv.ParseUint(string(b[:i]), 10, 64)
	return n
}

func (s *schedState) me() *gor {
	id := goid()
	s.mu.Lock()
	defer s.mu.Unlock()
	g := s.byGoid[id]
	if g == nil {
		// a goroutine nobody announced (started by code the instrumenter does
		// not see): identity by order of first appearance
		g = &gor{id: fmt.Sprintf("x%d", len(s.byGoid))}
		s.byGoid[id] = g
	}
	return g
}

// Yield parks the calling goroutine until the scheduler lets it continue. It
// returns at once when no scheduler is active.
func Yield(site string) {
	s := sched
	if s == nil {
		return
	}
	if s.alive.Load() <= 1 && site != "go" {
		// the only goroutine there is: nobody to yield to
		return
	}
	g := s.me()
	g.site = site
	g.grant = make(chan struct{})
	s.mu.Lock()
	s.pending = append(s.pending, g)
	s.mu.Unlock()
	<-g.grant
	if g.killed {
		runtime.Goexit()
	}
}

// Spawn is called by the parent immediately before a go statement and returns
// the identity of the goroutine about to start.
func Spawn(site string) string {
	s := sched
	if s == nil {
		if tripArmed {
			// first go statement of a run that was started outside the
			// scheduler (the cheap way, for the many runs that never start a
			// goroutine): stop here, the caller starts over under the scheduler
			tripped = true
			if p := Cur; p != nil {
				p.gone = NeedScheduler{}
			}
			panic(NeedScheduler{})
		}
		return ""
	}
	g := s.me()
	s.mu.Lock()
	defer s.mu.Unlock()
	id := fmt.Sprintf("%s.%d", g.id, g.kids)
	g.kids++
	SchedStats.Spawned++
	s.alive.Add(1)
	return id
}

// Ended is deferred by every announced goroutine.
func Ended() {
	if s := sched; s != nil {
		s.alive.Add(-1)
	}
}

// Born is the first thing a goroutine started by an instrumented go statement
// does: it takes its identity and waits for its first turn.
func Born(id string) {
	s := sched
	if s == nil || id == "" {
		return
	}
	me := goid()
	s.mu.Lock()
	s.byGoid[me] = &gor{id: id}
	s.mu.Unlock()
	Yield("go")
}

// SchedResult says how a scheduled run ended.
type SchedResult struct {
	Deadlock bool        // main goroutine blocked for ever
	Crash    *CrashPanic // a goroutine other than the main one panicked
	Panic    any         // panic that escaped the function
	Stack    string      // its stack
	Trace    []string    // who was released, in order: "id@site"
}

func schedMix(a uint64) uint64 {
	a += 0x9e3779b97f4a7c15
	a = (a ^ (a >> 30)) * 0xbf58476d1ce4e5b9
	a = (a ^ (a >> 27)) * 0x94d049bb133111eb
	return a ^ (a >> 31)
}

// RunScheduled executes fn as goroutine "0" of a fresh bubble under the
// scheduler and returns when fn has returned or can never return.
func RunScheduled(seed uint64, fn func()) (res SchedResult) {
	if T == nil {
		panic("simos: RunScheduled without a testing.T")
	}
	s := &schedState{byGoid: map[uint64]*gor{}, seed: seed}
	s.alive.Store(1)
	SchedStats.Runs++
	defer func() {
		// synctest panics when the bubble ends with goroutines still blocked
		// (the deadlock case): that is the verdict above, not a failure here
		if r := recover(); r != nil && !res.Deadlock && !s.over {
			res.Panic = r
		}
		res.Crash = s.crash
	}()
	synctest.Test(T, func(t *testing.T) {
		sched = s
		defer func() { sched = nil }()
		done := make(chan struct{})
		go func() {
			defer close(done)
			defer func() {
				if r := recover(); r != nil {
					res.Panic = r
					buf := make([]byte, 1<<16)
					res.Stack = string(buf[:runtime.Stack(buf, false)])
				}
			}()
			me := goid()
			s.mu.Lock()
			s.byGoid[me] = &gor{id: "0"}
			s.mu.Unlock()
			fn()
		}()
		finished := func() bool {
			select {
			case <-done:
				return true
			default:
				return false
			}
		}
		for {
			synctest.Wait()
			s.mu.Lock()
			if finished() {
				s.over = true
			}
			mainDone := finished()
			if len(s.pending) == 0 {
				s.mu.Unlock()
				if !s.over {
					res.Deadlock = true
					SchedStats.Deadlocks++
				}
				_ = mainDone
				return
			}
			sort.Slice(s.pending, func(i, j int) bool { return s.pending[i].id < s.pending[j].id })
			i := 0
			if !s.over && len(s.pending) > 1 {
				s.seed = schedMix(s.seed)
				i = int(s.seed % uint64(len(s.pending)))
				SchedStats.Decisions++
			}
			g := s.pending[i]
			s.pending = append(s.pending[:i], s.pending[i+1:]...)
			if s.over {
				g.killed = true
			} else if len(res.Trace) < 4096 {
				res.Trace = append(res.Trace, g.id+"@"+g.site)
			}
			s.mu.Unlock()
			close(g.grant)
		}
	})
	return res
}

// SelectForward says in which order the polls of an ordered select (see the
// instrumenter) try the cases: source order, or the reverse. Outside the
// scheduler it is always source order.
func SelectForward(site string) bool {
	s := sched
	if s == nil {
		return true
	}
	s.mu.Lock()
	defer s.mu.Unlock()
	s.selects++
	return schedMix(s.seed^(s.selects*0x9e3779b97f4a7c15))&1 == 0
}
