package simos

import "sync"

// The simulated clock. Code under test that imports time or context is pointed
// at shims which read this clock instead of the machine's: what a deadline or a
// timer does is then a decision of the simulator, repeatable from the case,
// and not a property of how fast or how loaded the machine is.
//
// jd as it stands reads no clock at all; the seam exists so that a tree which
// starts to (a time budget for a long diff, a timestamp in an output) is judged
// under several clocks instead of under whatever the machine happens to do.

// ClockPolicy says how simulated time passes.
//
//	""/"steady"  one microsecond per reading: no deadline shorter than the
//	             number of readings is ever reached (an idle, very fast machine)
//	"slow"       every reading advances time by a seeded jump of up to 60 ms
//	             (a loaded machine: a 100 ms budget runs out after a few polls)
//	"expired"    every deadline and timer is already due when it is created
type ClockPolicy struct {
	Mode string `json:"mode,omitempty"`
	Seed uint64 `json:"seed,omitempty"`
}

// Epoch is 2000-01-01T00:00:00Z in nanoseconds since 1970.
const Epoch = int64(946684800) * 1e9

var clock struct {
	mu       sync.Mutex
	policy   ClockPolicy
	now      int64
	readings uint64
}

// ClockStats counts what the clock seam saw since the last SetClock.
var ClockStats struct {
	Readings int64 // clock readings by code under test
	Expired  int64 // deadlines or timers that became due
	Sleeps   int64
}

// SetClock starts simulated time afresh under a policy.
func SetClock(p ClockPolicy) {
	clock.mu.Lock()
	defer clock.mu.Unlock()
	clock.policy = p
	clock.now = Epoch
	clock.readings = 0
}

func clockMix(a, b uint64) uint64 {
	z := a + 0x9e3779b97f4a7c15*(b+1)
	z = (z ^ (z >> 30)) * 0xbf58476d1ce4e5b9
	z = (z ^ (z >> 27)) * 0x94d049bb133111eb
	return z ^ (z >> 31)
}

// ClockNow reads the simulated clock (nanoseconds since 1970). Reading it makes
// time pass, as it does on a real machine.
func ClockNow() int64 {
	clock.mu.Lock()
	defer clock.mu.Unlock()
	clock.readings++
	ClockStats.Readings++
	switch clock.policy.Mode {
	case "slow":
		clock.now += int64(clockMix(clock.policy.Seed, clock.readings) % 60e6)
	default:
		clock.now += 1000
	}
	return clock.now
}

// ClockSleep lets d nanoseconds of simulated time pass at once.
func ClockSleep(d int64) {
	clock.mu.Lock()
	defer clock.mu.Unlock()
	ClockStats.Sleeps++
	if d > 0 {
		clock.now += d
	}
}

// ClockDue reports whether a deadline (nanoseconds since 1970) has been
// reached. Asking is a clock reading.
func ClockDue(deadline int64) bool {
	if ClockMode() == "expired" {
		return true
	}
	return ClockNow() >= deadline
}

// ClockMode returns the policy in force.
func ClockMode() string {
	clock.mu.Lock()
	defer clock.mu.Unlock()
	return clock.policy.Mode
}

// ClockExpired records that a deadline or timer became due.
func ClockExpired() {
	clock.mu.Lock()
	defer clock.mu.Unlock()
	ClockStats.Expired++
}
