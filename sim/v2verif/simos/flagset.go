package simos

import (
	stdflag "flag"
	"io"
	"time"
)

// ErrorHandling mirrors flag.ErrorHandling.
type ErrorHandling = stdflag.ErrorHandling

// SimFlagSet is what flag.NewFlagSet returns in the simulation: the standard
// parser, with ExitOnError routed to the simulated os.Exit (the real one would
// end the simulator) and the default output on the simulated stderr.
type SimFlagSet struct {
	fs       *stdflag.FlagSet
	handling ErrorHandling
	// Usage is called when an error occurs while parsing flags, like
	// flag.FlagSet.Usage.
	Usage func()
}

func NewSimFlagSet(name string, handling ErrorHandling) *SimFlagSet {
	s := &SimFlagSet{fs: stdflag.NewFlagSet(name, stdflag.ContinueOnError), handling: handling}
	s.fs.SetOutput(HStderr)
	s.fs.Usage = func() {
		if s.Usage != nil {
			s.Usage()
			return
		}
		if name == "" {
			io.WriteString(s.fs.Output(), "Usage:\n")
		} else {
			io.WriteString(s.fs.Output(), "Usage of "+name+":\n")
		}
		s.fs.PrintDefaults()
	}
	return s
}

func (s *SimFlagSet) Parse(arguments []string) error {
	err := s.fs.Parse(arguments)
	if err == nil {
		return nil
	}
	switch s.handling {
	case stdflag.ExitOnError:
		if err == stdflag.ErrHelp {
			Exit(0)
		}
		Exit(2)
	case stdflag.PanicOnError:
		panic(err)
	}
	return err
}

func (s *SimFlagSet) Bool(name string, value bool, usage string) *bool {
	return s.fs.Bool(name, value, usage)
}
func (s *SimFlagSet) BoolVar(p *bool, name string, value bool, usage string) {
	s.fs.BoolVar(p, name, value, usage)
}
func (s *SimFlagSet) Int(name string, value int, usage string) *int {
	return s.fs.Int(name, value, usage)
}
func (s *SimFlagSet) IntVar(p *int, name string, value int, usage string) {
	s.fs.IntVar(p, name, value, usage)
}
func (s *SimFlagSet) Int64(name string, value int64, usage string) *int64 {
	return s.fs.Int64(name, value, usage)
}
func (s *SimFlagSet) Uint(name string, value uint, usage string) *uint {
	return s.fs.Uint(name, value, usage)
}
func (s *SimFlagSet) String(name string, value string, usage string) *string {
	return s.fs.String(name, value, usage)
}
func (s *SimFlagSet) StringVar(p *string, name string, value string, usage string) {
	s.fs.StringVar(p, name, value, usage)
}
func (s *SimFlagSet) Float64(name string, value float64, usage string) *float64 {
	return s.fs.Float64(name, value, usage)
}
func (s *SimFlagSet) Float64Var(p *float64, name string, value float64, usage string) {
	s.fs.Float64Var(p, name, value, usage)
}
func (s *SimFlagSet) Duration(name string, value time.Duration, usage string) *time.Duration {
	return s.fs.Duration(name, value, usage)
}
func (s *SimFlagSet) Var(value stdflag.Value, name string, usage string) {
	s.fs.Var(value, name, usage)
}
func (s *SimFlagSet) Func(name, usage string, fn func(string) error) { s.fs.Func(name, usage, fn) }
func (s *SimFlagSet) BoolFunc(name, usage string, fn func(string) error) {
	s.fs.BoolFunc(name, usage, fn)
}
func (s *SimFlagSet) Args() []string                   { return s.fs.Args() }
func (s *SimFlagSet) Arg(i int) string                 { return s.fs.Arg(i) }
func (s *SimFlagSet) NArg() int                        { return s.fs.NArg() }
func (s *SimFlagSet) NFlag() int                       { return s.fs.NFlag() }
func (s *SimFlagSet) Parsed() bool                     { return s.fs.Parsed() }
func (s *SimFlagSet) Name() string                     { return s.fs.Name() }
func (s *SimFlagSet) Lookup(name string) *stdflag.Flag { return s.fs.Lookup(name) }
func (s *SimFlagSet) Set(name, value string) error     { return s.fs.Set(name, value) }
func (s *SimFlagSet) Visit(fn func(*stdflag.Flag))     { s.fs.Visit(fn) }
func (s *SimFlagSet) VisitAll(fn func(*stdflag.Flag))  { s.fs.VisitAll(fn) }
func (s *SimFlagSet) PrintDefaults()                   { s.fs.PrintDefaults() }
func (s *SimFlagSet) SetOutput(w io.Writer)            { s.fs.SetOutput(w) }
func (s *SimFlagSet) Output() io.Writer                { return s.fs.Output() }
func (s *SimFlagSet) ErrorHandling() ErrorHandling     { return s.handling }
func (s *SimFlagSet) Init(name string, h ErrorHandling) {
	s.fs.Init(name, stdflag.ContinueOnError)
	s.handling = h
}
