// Package verifseam puts Go's map iteration order behind a seam the simulator
// owns. The instrumenter rewrites every `range m` over a map in jd into
// `range verifseam.Map(site, m)`.
//
// With no hook installed the keys are visited in a canonical (sorted) order, so
// an instrumented build is deterministic. With a hook the simulator chooses a
// permutation per executed range statement. Every order produced here is an
// order the Go specification allows for a map range, so the rewrite removes
// nondeterminism and cannot make correct code fail.
package verifseam

import (
	"bytes"
	"fmt"
	"iter"
	"sort"
)

// Order modes a hook may return.
const (
	Canonical = iota
	Reverse
	Rotate  // param = rotation amount
	Shuffle // param = seed for a private xorshift shuffle
)

// Hook, when non-nil, is asked once per executed map range with at least two
// keys. It returns a mode and a parameter.
var Hook func(site string, n int) (mode int, param uint64)

// Observe, when non-nil, is told about every executed map range (any size).
var Observe func(site string, n int, mode int)

func less(a, b any) bool {
	switch x := a.(type) {
	case string:
		if y, ok := b.(string); ok {
			return x < y
		}
	case [8]byte:
		if y, ok := b.([8]byte); ok {
			return bytes.Compare(x[:], y[:]) < 0
		}
	case int:
		if y, ok := b.(int); ok {
			return x < y
		}
	case float64:
		if y, ok := b.(float64); ok {
			return x < y
		}
	case bool:
		if y, ok := b.(bool); ok {
			return !x && y
		}
	}
	sa, sb := fmt.Sprintf("%T|%v", a, a), fmt.Sprintf("%T|%v", b, b)
	return sa < sb
}

// Map returns an iterator over m in an order chosen by the simulator.
func Map[M ~map[K]V, K comparable, V any](site string, m M) iter.Seq2[K, V] {
	return func(yield func(K, V) bool) {
		n := len(m)
		if n == 0 {
			if Observe != nil {
				Observe(site, 0, Canonical)
			}
			return
		}
		keys := make([]K, 0, n)
		for k := range m {
			keys = append(keys, k)
		}
		if n > 1 {
			sort.Slice(keys, func(i, j int) bool { return less(keys[i], keys[j]) })
		}
		mode := Canonical
		if n > 1 && Hook != nil {
			var param uint64
			mode, param = Hook(site, n)
			switch mode {
			case Reverse:
				for i, j := 0, n-1; i < j; i, j = i+1, j-1 {
					keys[i], keys[j] = keys[j], keys[i]
				}
			case Rotate:
				r := int(param % uint64(n))
				if r != 0 {
					rot := make([]K, 0, n)
					rot = append(rot, keys[r:]...)
					rot = append(rot, keys[:r]...)
					keys = rot
				}
			case Shuffle:
				s := param | 1
				for i := n - 1; i > 0; i-- {
					s ^= s << 13
					s ^= s >> 7
					s ^= s << 17
					j := int(s % uint64(i+1))
					keys[i], keys[j] = keys[j], keys[i]
				}
			}
		}
		if Observe != nil {
			Observe(site, n, mode)
		}
		for _, k := range keys {
			v, ok := m[k]
			if !ok {
				continue // deleted during the loop: Go never produces it
			}
			if !yield(k, v) {
				return
			}
		}
	}
}
