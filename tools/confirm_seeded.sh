#!/bin/bash
# confirm_seeded.sh <worktree> <k> <demo>
#   demo = sh:<script relative to worktree>            (exit 0 = property holds)
#        | gotest:<test file rel. to worktree>:<dir to copy into>:<-run pattern>
# Confirms, in the scratch worktree, that change <k> (out/change<k>.diff)
# (a) applies to the clean tree, (b) builds, (c) keeps the existing suite green,
# (d) makes the demonstration fail, and (e) that the demonstration passes on the
# clean tree. Leaves the worktree clean. Prints CONFIRMED or REJECTED <why>.
set -u
W="$1"; K="$2"; DEMO="$3"
unset GOTOOLCHAIN GOSUMDB
export GOFLAGS=-mod=mod GOPROXY=off
cd "$W" || exit 2
git checkout -q -- . 2>/dev/null
run_demo() {
  case "$DEMO" in
    sh:*) bash "${DEMO#sh:}" "$W" >"$W/out/demo$K.log" 2>&1; return $? ;;
    gotest:*)
      IFS=: read -r _ f d pat <<<"$DEMO"
      cp "$f" "$d/" || return 99
      ( cd "$d" && go test -vet=off -count=1 -run "$pat" . ) >"$W/out/demo$K.log" 2>&1; rc=$?
      rm -f "$d/$(basename "$f")"
      return $rc ;;
  esac
}
suite() {
  ( cd "$W" && go build ./... && go test -vet=off -count=1 . ./lib ) >"$W/out/suite$K.log" 2>&1 || return 1
  ( cd "$W/v2" && go build . ./jd && go test -vet=off -count=1 . ./jd ) >>"$W/out/suite$K.log" 2>&1 || return 1
}
run_demo; e=$?
[ $e -eq 0 ] || { echo "REJECTED change$K: demo does not pass on the clean tree (rc=$e)"; exit 1; }
git apply --whitespace=nowarn "out/change$K.diff" || { echo "REJECTED change$K: patch does not apply"; exit 1; }
if ! suite; then git checkout -q -- .; echo "REJECTED change$K: build or existing suite fails with the change"; tail -5 "$W/out/suite$K.log"; exit 1; fi
run_demo; d=$?
git checkout -q -- .
[ $d -ne 0 ] || { echo "REJECTED change$K: demo passes with the change"; exit 1; }
echo "CONFIRMED change$K (clean demo rc=0, changed demo rc=$d, suite green)"
