#!/bin/bash
# import_seeded.sh <worktree> <k> <id> <property> <origin text>
# Confirms change <k> of a sub-agent's scratch worktree (tools/confirm_seeded.sh)
# and files it as seeded/<id>/ (patch.diff, demo/, notes.md, meta.json).
set -u
cd "$(dirname "$0")/.."
W="$1"; K="$2"; ID="$3"; PROP="$4"; ORIGIN="${5:-independent sub-agent}"
[ -f "$W/out/change$K.diff" ] || { echo "no change$K.diff in $W/out"; exit 2; }
r=$(tools/confirm_seeded.sh "$W" "$K" "sh:out/demo$K.sh" 2>&1 | grep -v WARNING | tail -1)
echo "$ID $r"
case "$r" in CONFIRMED*) ;; *) exit 1;; esac
mkdir -p "seeded/$ID/demo"
cp "$W/out/change$K.diff" "seeded/$ID/patch.diff"
if ! TRY_APPLY_ONLY=1 tools/try_seeded.sh "$PWD/seeded/$ID/patch.diff" 2>&1 | grep -q APPLIES; then
  python3 tools/rebase_print.py "$W/out/change$K.diff" "seeded/$ID/patch.diff"
  TRY_APPLY_ONLY=1 tools/try_seeded.sh "$PWD/seeded/$ID/patch.diff" 2>&1 | grep -q APPLIES || echo "$ID NEEDS MANUAL REBASE onto $(git -C /repo log --format=%h -1)"
fi
for f in "$W"/out/demo$K*; do [ -e "$f" ] && cp -r "$f" "seeded/$ID/demo/"; done
[ -f "$W/out/notes$K.md" ] && cp "$W/out/notes$K.md" "seeded/$ID/notes.md"
BASE=$(git -C "$W" log --format=%h -1)
python3 - "$ID" "$PROP" "$ORIGIN" "$BASE" "$K" <<'P'
import json,sys
i,prop,origin,base,k=sys.argv[1:]
json.dump({"id":i,"property":prop,"origin":f"{origin}, change {k}; scratch worktree of /repo at commit {base}",
 "needs_to_manifest":"see notes.md","demonstration":f"demo/: demo{k}.sh",
 "confirmed":"tools/confirm_seeded.sh in the scratch worktree: patch applies to the clean tree, builds, existing suite green, demonstration fails with the change and passes without it",
 "checks_run":{}},open(f"seeded/{i}/meta.json","w"),indent=1)
P
