#!/bin/bash
# run_mutants.sh : every defect that was repaired must be re-detected when its
# repair is reverted (mutants/MAP: reverse diff, property). Appends to mutants/results.txt
cd "$(dirname "$0")/.."
while read -r m prop; do
  [ -n "$m" ] || continue
  r=$(tools/try_seeded.sh "$PWD/mutants/$m" $prop 2>&1 | grep -v WARNING | tail -1)
  echo "$m $prop $r" | cut -c1-400 | tee -a mutants/results.txt
done < "${1:-mutants/MAP}"
