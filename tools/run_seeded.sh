#!/bin/bash
# run_seeded.sh [ids...] : runs the quick check of each seeded change's own
# property against a scratch copy with the change applied; appends to seeded/results.txt
cd "$(dirname "$0")/.."
ids="$@"; [ -n "$ids" ] || ids=$(ls seeded | grep '^S')
for id in $ids; do
  prop=$(python3 -c "import json;print(json.load(open('seeded/$id/meta.json'))['property'])")
  r=$(tools/try_seeded.sh "$PWD/seeded/$id/patch.diff" $prop 2>&1 | grep -v WARNING | tail -1)
  echo "$id $prop $r" | tee -a seeded/results.txt
done
