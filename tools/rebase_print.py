import sys,re
src,dst=sys.argv[1],sys.argv[2]
out=[];cur=None
for l in open(src,errors='surrogateescape').read().split('\n'):
    if l.startswith('diff --git'):
        m=re.match(r'diff --git a/(\S+) b/(\S+)',l); cur=m.group(2) if m else None
    if cur in('main.go','v2/jd/main.go') and l[:1] in(' ','-','+') and not l.startswith(('---','+++')):
        l=re.sub(r'\bfmt\.Print\((str|out)\)',r'printOutput(\1)',l)
    out.append(l)
open(dst,'w',errors='surrogateescape').write('\n'.join(out))
