#!/bin/bash
# try_seeded.sh <patch.diff> <C13|C14|C15>... : applies a seeded change to a scratch
# copy of /repo (never to /repo itself), runs the named quick checks against the
# copy, and removes the copy. Prints one line per check: CAUGHT / MISSED / INFRA.
# Development aid (sensitivity gate), not a registered command.
set -u
HERE="$(cd "$(dirname "$0")/.." && pwd)"
P="$1"; shift
W="$(mktemp -d /var/tmp/seedtry.XXXXXX)"
trap 'rm -rf "$W"' EXIT
rsync -a --exclude .git /repo/ "$W/repo/" || exit 2
( cd "$W/repo" && git init -q . 2>/dev/null; git apply --whitespace=nowarn "$P" ) || { echo "INFRA patch does not apply: $P"; exit 2; }
rm -rf "$W/repo/.git"
for prop in "$@"; do
  out="$W/out.$prop"
  VERIF_REPO="$W/repo" VERIF_BUDGET="${VERIF_BUDGET:-30}" VERIF_EVIDENCE_DIR="$W/evidence" VERIF_REPLAY_DIR="$W/replays" "$HERE/check" "$prop" quick >"$out" 2>&1
  rc=$?
  case $rc in
    1) echo "CAUGHT $prop $(grep -c '^VIOLATION' "$out") violation class(es): $(grep -m3 '^  ' "$out" | cut -c1-260 | tr '\n' ';')";;
    0) echo "MISSED $prop $(tail -1 "$out" | cut -c1-200)";;
    *) echo "INFRA  $prop rc=$rc $(tail -3 "$out" | cut -c1-300 | tr '\n' ' ')";;
  esac
done
