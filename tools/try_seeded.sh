#!/bin/bash
# try_seeded.sh <patch.diff> <C13|C14|C15>... : applies a seeded change to a scratch
# git worktree of /repo's HEAD (never to /repo itself), runs the named quick checks
# against it, and removes it. The patch is applied with a three-way fallback
# (git apply -3), so that a change written against an earlier commit of /repo
# still applies after later fix: commits touched neighbouring lines.
# Prints one line per check: CAUGHT / MISSED / INFRA.
# Development aid (sensitivity gate), not a registered command.
set -u
HERE="$(cd "$(dirname "$0")/.." && pwd)"
P="$1"; shift
W="$(mktemp -d /var/tmp/seedtry.XXXXXX)"
trap 'git -C /repo worktree remove --force "$W/repo" >/dev/null 2>&1; rm -rf "$W"; git -C /repo worktree prune >/dev/null 2>&1' EXIT
git -C /repo worktree add -q --detach "$W/repo" HEAD >/dev/null 2>&1 || { echo "INFRA cannot create worktree"; exit 2; }
( cd "$W/repo" && { git apply --whitespace=nowarn "$P" 2>/dev/null || git apply -3 --whitespace=nowarn "$P" >/dev/null 2>&1; } ) || { echo "INFRA patch does not apply: $P"; exit 2; }
if [ "${TRY_APPLY_ONLY:-}" = 1 ]; then echo "APPLIES $P"; exit 0; fi
for prop in "$@"; do
  out="$W/out.$prop"
  VERIF_REPO="$W/repo" VERIF_BUDGET="${VERIF_BUDGET:-30}" VERIF_EVIDENCE_DIR="$W/evidence" VERIF_REPLAY_DIR="$W/replays" "$HERE/check" "$prop" quick >"$out" 2>&1
  rc=$?
  [ -n "${TRY_KEEP_OUT:-}" ] && cp "$out" "$TRY_KEEP_OUT.$prop"
  case $rc in
    1) echo "CAUGHT $prop $(grep -c '^VIOLATION' "$out") violation class(es): $(grep -m3 '^  ' "$out" | cut -c1-260 | tr '\n' ';')";;
    0) echo "MISSED $prop $(tail -1 "$out" | cut -c1-200)";;
    *) echo "INFRA  $prop rc=$rc $(tail -3 "$out" | cut -c1-300 | tr '\n' ' ')";;
  esac
done
