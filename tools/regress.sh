#!/bin/bash
# regress.sh [parallel=2] : the whole sensitivity gate in one go (development aid).
#   every seeded change   -> the quick check of its own property must report it
#                            (S30, S37, S62, S72, S89 are CLI-only changes filed under C15: C14 must report them)
#   every mutant          -> the quick check named in mutants/MAP, mutants/own/MAP must report it
#   every benign change   -> all three quick checks must stay quiet
# Works on scratch copies of /repo; takes 1-2 hours on 16 idle cores. Do not edit
# /verif/sim while it runs (every step rebuilds the simulator from it).
cd "$(dirname "$0")/.."
P="${1:-2}"
L=/var/tmp/regress.$$
mkdir -p "$L"
ids=($(ls seeded | grep '^S'))
for ((b=0;b<P;b++)); do
  ( for ((i=b;i<${#ids[@]};i+=P)); do tools/run_seeded.sh ${ids[$i]}; done > "$L/seeded.$b.log" 2>&1 ) &
done
wait
for id in S30 S37 S62 S72 S89; do
  echo "$id C14 $(tools/try_seeded.sh "$PWD/seeded/$id/patch.diff" C14 2>&1 | grep -v WARNING | tail -1 | cut -c1-200)" >> "$L/seeded.cli.log"
done
cat mutants/MAP mutants/own/MAP > "$L/mut.map"
tools/run_mutants.sh "$L/mut.map" > "$L/mutants.log" 2>&1
bids=($(ls benign | grep '^B'))
for ((b=0;b<P;b++)); do
  ( for ((i=b;i<${#bids[@]};i+=P)); do tools/run_benign.sh ${bids[$i]}; done > "$L/benign.$b.log" 2>&1 ) &
done
wait
echo "== seeded changes not reported by their own property's check:"
cat "$L"/seeded.[0-9]*.log | grep -v CAUGHT | cut -c1-160
echo "== CLI-only changes filed under C15, against C14:"
cat "$L/seeded.cli.log" | cut -c1-160
echo "== mutants not reported:"
grep -v CAUGHT "$L/mutants.log" | cut -c1-160
echo "== benign changes not quiet:"
cat "$L"/benign.*.log | grep -v MISSED | cut -c1-200
echo "== done; logs in $L"
