#!/usr/bin/env python3
# Validates MANIFEST.json and evidence files against the given schemas.
import json, sys, glob, jsonschema
ok = True
def v(path, schema):
    global ok
    try:
        jsonschema.validate(json.load(open(path)), json.load(open(schema)))
        print("valid:", path)
    except Exception as e:
        ok = False
        print("INVALID:", path, str(e)[:400])
v('/verif/MANIFEST.json', '/root/.vp/MANIFEST.schema.json')
for f in sorted(glob.glob('/verif/evidence/*.json')):
    v(f, '/root/.vp/EVIDENCE.schema.json')
sys.exit(0 if ok else 1)
