// instrument rewrites a scratch copy of josephburnett/jd so that the simulator
// owns every source of nondeterminism the claimed properties depend on.
//
// It performs three mechanical rewrites on the copy (never on /repo):
//
//  1. map-order seam: every `range m` whose operand has a map underlying type,
//     in the non-test files of the given library packages and of both main
//     packages, becomes `range verifseam.Map("<file:line>", m)`.
//     Sites are found by type-checking, so a changed tree with new or moved map
//     loops is instrumented without anybody maintaining a list.
//  2. main -> package: `package main` / `func main()` of the two CLI files become
//     importable packages with an exported `Main()`.
//  3. OS seam by import substitution, in those main files only: os, io/ioutil,
//     fmt, log, flag, net/http, os/exec, math/rand are pointed at shim packages.
//
// Usage: instrument -root <copy of repo> [-report file]
//
// Exit status: 0 ok, 2 on any problem (the caller reports INFRA-ERROR).
package main

import (
	"bytes"
	"encoding/json"
	"flag"
	"fmt"
	"go/ast"
	"go/format"
	"go/importer"
	"go/parser"
	"go/printer"
	"go/token"
	"go/types"
	"io"
	"os"
	"os/exec"
	"path/filepath"
	"reflect"
	"sort"
	"strconv"
	"strings"
)

const (
	seamImport  = "github.com/josephburnett/jd/v2/verif/seam"
	simosImport = "github.com/josephburnett/jd/v2/verif/simos"
	shimPrefix  = "github.com/josephburnett/jd/v2/verif/shim/"
)

type listedPkg struct {
	ImportPath string
	Export     string
	Dir        string
	GoFiles    []string
	Standard   bool
	Error      *struct{ Err string }
}

type siteReport struct {
	Site string `json:"site"`
	Key  string `json:"key_type"`
}

type report struct {
	MapRangeSites  []siteReport `json:"map_range_sites"`
	Mains          []string     `json:"mains"`
	ShimmedImport  []string     `json:"shimmed_imports"`
	GlobalsReset   []string     `json:"globals_reset"`
	GoStatements   []string     `json:"go_statements"`
	YieldPoints    int          `json:"yield_points"`
	OrderedSelects int          `json:"ordered_selects"`
}

var rep report

func die(f string, a ...any) {
	fmt.Fprintf(os.Stderr, "instrument: "+f+"\n", a...)
	os.Exit(2)
}

func goList(dir string, pkgs ...string) map[string]*listedPkg {
	args := append([]string{"list", "-e", "-export", "-deps", "-json"}, pkgs...)
	cmd := exec.Command(goBin(), args...)
	cmd.Dir = dir
	var out, errb bytes.Buffer
	cmd.Stdout = &out
	cmd.Stderr = &errb
	if err := cmd.Run(); err != nil {
		die("go list in %s: %v\n%s", dir, err, errb.String())
	}
	res := map[string]*listedPkg{}
	dec := json.NewDecoder(&out)
	for {
		var p listedPkg
		if err := dec.Decode(&p); err == io.EOF {
			break
		} else if err != nil {
			die("go list json: %v", err)
		}
		pp := p
		res[p.ImportPath] = &pp
	}
	return res
}

func goBin() string {
	if g := os.Getenv("VERIF_GO"); g != "" {
		return g
	}
	return "go"
}

// instrumentMapRanges type-checks package pkgPath (rooted at modDir, living in
// dir) and rewrites map ranges in its non-test Go files. relRoot is the copy
// root, used to render site names.
func instrumentMapRanges(relRoot, modDir, pkgPattern string, isMain bool) {
	listed := goList(modDir, pkgPattern)
	var target *listedPkg
	absDir, _ := filepath.Abs(filepath.Join(modDir, pkgPattern))
	for _, p := range listed {
		if p.Dir == absDir {
			target = p
		}
	}
	if target == nil {
		die("package %s not found under %s", pkgPattern, modDir)
	}
	fset := token.NewFileSet()
	var files []*ast.File
	var names []string
	for _, f := range target.GoFiles {
		fn := filepath.Join(target.Dir, f)
		af, err := parser.ParseFile(fset, fn, nil, parser.ParseComments)
		if err != nil {
			die("parse %s: %v", fn, err)
		}
		files = append(files, af)
		names = append(names, fn)
	}
	lookup := func(path string) (io.ReadCloser, error) {
		p, ok := listed[path]
		if !ok || p.Export == "" {
			return nil, fmt.Errorf("no export data for %q", path)
		}
		return os.Open(p.Export)
	}
	conf := types.Config{
		Importer: importer.ForCompiler(fset, "gc", lookup),
		Error: func(err error) {
			if os.Getenv("VERIF_INSTRUMENT_DEBUG") != "" {
				fmt.Fprintln(os.Stderr, "instrument: type check:", err)
			}
		},
	}
	info := &types.Info{Types: map[ast.Expr]types.TypeAndValue{}, Defs: map[*ast.Ident]types.Object{}, Uses: map[*ast.Ident]types.Object{}, Selections: map[*ast.SelectorExpr]*types.Selection{}}
	_, _ = conf.Check(target.ImportPath, fset, files, info)
	mainTouched := map[int]bool{}
	if isMain {
		mainTouched = addProcessStart(files, info)
	}

	for i, af := range files {
		changed := false
		ast.Inspect(af, func(n ast.Node) bool {
			rs, ok := n.(*ast.RangeStmt)
			if !ok {
				return true
			}
			tv, ok := info.Types[rs.X]
			if !ok || tv.Type == nil {
				die("%s: no type for range operand at %s (type-check failed?)", names[i], fset.Position(rs.Pos()))
			}
			mt, ok := tv.Type.Underlying().(*types.Map)
			if !ok {
				return true
			}
			pos := fset.Position(rs.Pos())
			rel, _ := filepath.Rel(relRoot, pos.Filename)
			site := fmt.Sprintf("%s:%d", filepath.ToSlash(rel), pos.Line)
			rs.X = &ast.CallExpr{
				Fun: &ast.SelectorExpr{X: ast.NewIdent("verifseam"), Sel: ast.NewIdent("Map")},
				Args: []ast.Expr{
					&ast.BasicLit{Kind: token.STRING, Value: strconv.Quote(site)},
					rs.X,
				},
			}
			rep.MapRangeSites = append(rep.MapRangeSites, siteReport{Site: site, Key: mt.Key().String()})
			changed = true
			return true
		})
		if instrumentConcurrency(fset, af, info, relRoot) {
			addImport(af, "verifsimos", simosImport)
			changed = true
		}
		if !isMain && addGlobalsReset(af, info, i) {
			addImport(af, "verifsimos", simosImport)
			changed = true
		}
		if mainTouched[i] {
			addImport(af, "verifsimos", simosImport)
			changed = true
		}
		if changed {
			if usesSeam(af) {
				addImport(af, "verifseam", seamImport)
			}
			writeFile(fset, af, names[i])
		}
	}
}

func usesSeam(af *ast.File) bool {
	found := false
	ast.Inspect(af, func(n ast.Node) bool {
		if se, ok := n.(*ast.SelectorExpr); ok {
			if id, ok := se.X.(*ast.Ident); ok && id.Name == "verifseam" {
				found = true
			}
		}
		return !found
	})
	return found
}

// safeInit reports whether re-evaluating a package-level initialiser at the
// start of every simulated process is harmless: literals, composite literals,
// identifiers, operators, builtins and conversions, but no other call.
func safeInit(e ast.Expr, info *types.Info) bool {
	ok := true
	ast.Inspect(e, func(n ast.Node) bool {
		switch c := n.(type) {
		case *ast.CallExpr:
			if tv, found := info.Types[c.Fun]; found && (tv.IsType() || tv.IsBuiltin()) {
				return true
			}
			ok = false
		case *ast.FuncLit:
			return false // a function value: fine, do not look inside
		}
		return ok
	})
	return ok
}

// addGlobalsReset appends to file af a function that puts the package-level
// variables declared in af back to their initial values, and registers it with
// the simulator, which calls it before every simulated process: a real process
// starts with fresh globals, simulated processes share one Go program.
func addGlobalsReset(af *ast.File, info *types.Info, idx int) bool {
	var stmts []ast.Stmt
	for _, d := range af.Decls {
		gd, ok := d.(*ast.GenDecl)
		if !ok || gd.Tok != token.VAR {
			continue
		}
		for _, sp := range gd.Specs {
			vs := sp.(*ast.ValueSpec)
			for j, name := range vs.Names {
				if name.Name == "_" {
					continue
				}
				switch {
				case len(vs.Values) == 0 && vs.Type != nil:
					// zero value: { var z T; name = z }
					stmts = append(stmts, &ast.BlockStmt{List: []ast.Stmt{
						&ast.DeclStmt{Decl: &ast.GenDecl{Tok: token.VAR, Specs: []ast.Spec{&ast.ValueSpec{Names: []*ast.Ident{ast.NewIdent("z")}, Type: vs.Type}}}},
						&ast.AssignStmt{Lhs: []ast.Expr{ast.NewIdent(name.Name)}, Tok: token.ASSIGN, Rhs: []ast.Expr{ast.NewIdent("z")}},
					}})
				case len(vs.Values) == len(vs.Names) && safeInit(vs.Values[j], info):
					rhs := vs.Values[j]
					if vs.Type != nil {
						rhs = &ast.CallExpr{Fun: &ast.ParenExpr{X: vs.Type}, Args: []ast.Expr{rhs}}
					}
					stmts = append(stmts, &ast.AssignStmt{Lhs: []ast.Expr{ast.NewIdent(name.Name)}, Tok: token.ASSIGN, Rhs: []ast.Expr{rhs}})
				}
			}
		}
	}
	if len(stmts) == 0 {
		return false
	}
	fn := fmt.Sprintf("verifResetGlobals%d", idx)
	af.Decls = append(af.Decls,
		&ast.FuncDecl{Name: ast.NewIdent(fn), Type: &ast.FuncType{Params: &ast.FieldList{}}, Body: &ast.BlockStmt{List: stmts}},
		&ast.FuncDecl{Name: ast.NewIdent("init"), Type: &ast.FuncType{Params: &ast.FieldList{}}, Body: &ast.BlockStmt{List: []ast.Stmt{
			&ast.ExprStmt{X: &ast.CallExpr{Fun: &ast.SelectorExpr{X: ast.NewIdent("verifsimos"), Sel: ast.NewIdent("OnReset")}, Args: []ast.Expr{ast.NewIdent(fn)}}},
		}}},
	)
	rep.GlobalsReset = append(rep.GlobalsReset, fmt.Sprintf("%s: %d variables", af.Name.Name+"/"+fn, len(stmts)))
	return true
}

func addImport(af *ast.File, name, path string) {
	for _, im := range af.Imports {
		if im.Name != nil && im.Name.Name == name && im.Path.Value == strconv.Quote(path) {
			return
		}
	}
	spec := &ast.ImportSpec{
		Name: ast.NewIdent(name),
		Path: &ast.BasicLit{Kind: token.STRING, Value: strconv.Quote(path)},
	}
	decl := &ast.GenDecl{Tok: token.IMPORT, Specs: []ast.Spec{spec}}
	af.Decls = append([]ast.Decl{decl}, af.Decls...)
	af.Imports = append(af.Imports, spec)
}

func writeFile(fset *token.FileSet, af *ast.File, name string) {
	var buf bytes.Buffer
	if err := format.Node(&buf, fset, af); err != nil {
		if os.Getenv("VERIF_INSTRUMENT_DEBUG") != "" {
			var raw bytes.Buffer
			printer.Fprint(&raw, fset, af)
			os.WriteFile("/var/tmp/instrument-debug.go", raw.Bytes(), 0o644)
		}
		die("format %s: %v", name, err)
	}
	if err := os.WriteFile(name, buf.Bytes(), 0o644); err != nil {
		die("write %s: %v", name, err)
	}
}

var shimOf = map[string]string{
	"os":            "os",
	"io/ioutil":     "ioutil",
	"fmt":           "fmt",
	"log":           "log",
	"net/http":      "http",
	"os/exec":       "exec",
	"os/signal":     "signal",
	"path/filepath": "filepath",
	"math/rand":     "rand",
	"time":          "time",
	"context":       "context",
	"sync":          "sync",
	// "flag" is per binary, see below
}

// libShimOf: what the library packages get. The clock seam, and the file
// system in case a tree moves its file reading into library functions.
// math/rand stays real there: a library that draws random numbers is
// nondeterministic across processes, which is for C15 to see.
var libShimOf = map[string]string{
	"os":        "os",
	"io/ioutil": "ioutil",
	"time":      "time",
	"context":   "context",
	"sync":      "sync",
}

// shimLibrary points the effectful imports of the library package in dir at
// the shims.
func shimLibrary(dir string) {
	ents, err := os.ReadDir(dir)
	if err != nil {
		die("%v", err)
	}
	fset := token.NewFileSet()
	for _, e := range ents {
		n := e.Name()
		if e.IsDir() || !strings.HasSuffix(n, ".go") || strings.HasSuffix(n, "_test.go") {
			continue
		}
		fn := filepath.Join(dir, n)
		af, err := parser.ParseFile(fset, fn, nil, parser.ParseComments)
		if err != nil {
			die("parse %s: %v", fn, err)
		}
		changed := false
		for _, im := range af.Imports {
			p, _ := strconv.Unquote(im.Path.Value)
			shim, ok := libShimOf[p]
			if !ok {
				continue
			}
			local := filepath.Base(p)
			if im.Name != nil {
				local = im.Name.Name
			}
			im.Name = ast.NewIdent(local)
			im.Path.Value = strconv.Quote(shimPrefix + shim)
			rep.ShimmedImport = append(rep.ShimmedImport, fmt.Sprintf("%s: %s -> %s", fn, p, shimPrefix+shim))
			changed = true
		}
		if changed {
			writeFile(fset, af, fn)
		}
	}
}

// convertMain turns the single-file main package in dir into an importable
// package pkgName with func Main(), and points effectful imports at shims.
func convertMain(dir, pkgName, flagShim string) {
	ents, err := os.ReadDir(dir)
	if err != nil {
		die("%v", err)
	}
	fset := token.NewFileSet()
	found := false
	for _, e := range ents {
		n := e.Name()
		if e.IsDir() || !strings.HasSuffix(n, ".go") {
			continue
		}
		fn := filepath.Join(dir, n)
		if strings.HasSuffix(n, "_test.go") {
			// tests of package main cannot live next to the converted package
			if err := os.Remove(fn); err != nil {
				die("%v", err)
			}
			continue
		}
		af, err := parser.ParseFile(fset, fn, nil, parser.ParseComments)
		if err != nil {
			die("parse %s: %v", fn, err)
		}
		if af.Name.Name != "main" {
			continue
		}
		af.Name.Name = pkgName
		for _, d := range af.Decls {
			if fd, ok := d.(*ast.FuncDecl); ok && fd.Recv == nil && fd.Name.Name == "main" {
				fd.Name.Name = "Main"
				found = true
			}
		}
		for _, im := range af.Imports {
			p, _ := strconv.Unquote(im.Path.Value)
			var shim string
			if p == "flag" {
				shim = flagShim
			} else if s, ok := shimOf[p]; ok {
				shim = s
			} else {
				continue
			}
			local := filepath.Base(p)
			if im.Name != nil {
				local = im.Name.Name
			}
			im.Name = ast.NewIdent(local)
			im.Path.Value = strconv.Quote(shimPrefix + shim)
			rep.ShimmedImport = append(rep.ShimmedImport, fmt.Sprintf("%s: %s -> %s", fn, p, shimPrefix+shim))
		}
		writeFile(fset, af, fn)
		rep.Mains = append(rep.Mains, fn)
	}
	if !found {
		die("no func main() in %s", dir)
	}
}

func main() {
	root := flag.String("root", "", "root of the scratch copy of the repository")
	reportFile := flag.String("report", "", "write a JSON report here")
	flag.Parse()
	if *root == "" {
		die("-root required")
	}
	r, err := filepath.Abs(*root)
	if err != nil {
		die("%v", err)
	}
	// Order matters: type-check while the tree is still the original program.
	// the main packages first: their type check needs the export data of the
	// libraries as they are in the original program
	prescanGo(filepath.Join(r, "v2", "jd"), r, filepath.Join(r, "v2"), filepath.Join(r, "lib"))
	instrumentMapRanges(r, filepath.Join(r, "v2"), "./jd", true)
	instrumentMapRanges(r, r, ".", true)
	instrumentMapRanges(r, filepath.Join(r, "v2"), ".", false)
	instrumentMapRanges(r, r, "./lib", false)
	shimLibrary(filepath.Join(r, "v2"))
	shimLibrary(filepath.Join(r, "lib"))
	convertMain(filepath.Join(r, "v2", "jd"), "jdv2", "flagv2")
	convertMain(r, "jdtop", "flagtop")
	sort.Slice(rep.MapRangeSites, func(i, j int) bool { return rep.MapRangeSites[i].Site < rep.MapRangeSites[j].Site })
	if *reportFile != "" {
		b, _ := json.MarshalIndent(rep, "", " ")
		if err := os.WriteFile(*reportFile, b, 0o644); err != nil {
			die("%v", err)
		}
	}
}

// addProcessStart makes a main package start afresh for every simulated
// process, the way a real process does: every package-level variable is
// re-initialised in the order the Go specification prescribes (types.Info's
// InitOrder), flag definitions included (the flag shim hands out a new flag set
// per process), variables without an initialiser are zeroed, and the package's
// init functions run again. It returns the indices of the files it changed.
func addProcessStart(files []*ast.File, info *types.Info) map[int]bool {
	touched := map[int]bool{}
	// file extents, taken before any declaration is appended (appended
	// declarations have no positions and would move File.End)
	type span struct{ lo, hi token.Pos }
	spans := make([]span, len(files))
	for i, f := range files {
		spans[i] = span{f.Pos(), f.End()}
	}
	fileOf := func(pos token.Pos) int {
		for i, sp := range spans {
			if sp.lo <= pos && pos <= sp.hi {
				return i
			}
		}
		return -1
	}
	var calls []ast.Stmt
	n := 0
	addFunc := func(fi int, body []ast.Stmt) {
		name := fmt.Sprintf("verifStart%d", n)
		n++
		files[fi].Decls = append(files[fi].Decls, &ast.FuncDecl{Name: ast.NewIdent(name), Type: &ast.FuncType{Params: &ast.FieldList{}}, Body: &ast.BlockStmt{List: body}})
		calls = append(calls, &ast.ExprStmt{X: &ast.CallExpr{Fun: ast.NewIdent(name)}})
		touched[fi] = true
	}
	initialised := map[string]bool{}
	// 1. variables without an initialiser: zero value
	for fi, af := range files {
		for _, d := range af.Decls {
			gd, ok := d.(*ast.GenDecl)
			if !ok || gd.Tok != token.VAR {
				continue
			}
			for _, sp := range gd.Specs {
				vs := sp.(*ast.ValueSpec)
				if len(vs.Values) != 0 || vs.Type == nil {
					continue
				}
				for _, name := range vs.Names {
					if name.Name == "_" {
						continue
					}
					addFunc(fi, []ast.Stmt{
						&ast.DeclStmt{Decl: &ast.GenDecl{Tok: token.VAR, Specs: []ast.Spec{&ast.ValueSpec{Names: []*ast.Ident{ast.NewIdent("z")}, Type: vs.Type}}}},
						&ast.AssignStmt{Lhs: []ast.Expr{ast.NewIdent(name.Name)}, Tok: token.ASSIGN, Rhs: []ast.Expr{ast.NewIdent("z")}},
					})
					initialised[name.Name] = true
				}
			}
		}
	}
	// 2. initialisers, in initialisation order
	if os.Getenv("VERIF_INSTRUMENT_DEBUG") != "" {
		fmt.Fprintln(os.Stderr, "instrument: InitOrder has", len(info.InitOrder), "entries")
	}
	for _, in := range info.InitOrder {
		fi := fileOf(in.Rhs.Pos())
		if fi < 0 {
			continue
		}
		var lhs []ast.Expr
		for _, v := range in.Lhs {
			lhs = append(lhs, ast.NewIdent(v.Name()))
		}
		if len(lhs) == 0 {
			lhs = []ast.Expr{ast.NewIdent("_")}
		}
		addFunc(fi, []ast.Stmt{&ast.AssignStmt{Lhs: lhs, Tok: token.ASSIGN, Rhs: []ast.Expr{in.Rhs}}})
	}
	// 3. init functions run again (renamed so that they can be called)
	k := 0
	var firstFile = -1
	for fi, af := range files {
		if firstFile < 0 {
			firstFile = fi
		}
		for _, d := range af.Decls {
			fd, ok := d.(*ast.FuncDecl)
			if !ok || fd.Recv != nil || fd.Name.Name != "init" {
				continue
			}
			fd.Name.Name = fmt.Sprintf("verifOrigInit%d", k)
			calls = append(calls, &ast.ExprStmt{X: &ast.CallExpr{Fun: ast.NewIdent(fd.Name.Name)}})
			k++
			touched[fi] = true
		}
	}
	if len(calls) == 0 || firstFile < 0 {
		return touched
	}
	// registration: the original init functions must still run once at program
	// start (they were renamed), then everything is registered for re-running
	var initBody []ast.Stmt
	for _, c := range calls {
		if ce, ok := c.(*ast.ExprStmt).X.(*ast.CallExpr); ok {
			if id, ok := ce.Fun.(*ast.Ident); ok && len(id.Name) > 13 && id.Name[:13] == "verifOrigInit" {
				initBody = append(initBody, c)
			}
		}
	}
	files[firstFile].Decls = append(files[firstFile].Decls,
		&ast.FuncDecl{Name: ast.NewIdent("verifProcessStart"), Type: &ast.FuncType{Params: &ast.FieldList{}}, Body: &ast.BlockStmt{List: calls}},
	)
	initBody = append(initBody, &ast.ExprStmt{X: &ast.CallExpr{Fun: &ast.SelectorExpr{X: ast.NewIdent("verifsimos"), Sel: ast.NewIdent("OnProcessStart")}, Args: []ast.Expr{ast.NewIdent("verifProcessStart")}}})
	files[firstFile].Decls = append(files[firstFile].Decls,
		&ast.FuncDecl{Name: ast.NewIdent("init"), Type: &ast.FuncType{Params: &ast.FieldList{}}, Body: &ast.BlockStmt{List: initBody}},
	)
	touched[firstFile] = true
	rep.GlobalsReset = append(rep.GlobalsReset, fmt.Sprintf("main package: %d variables re-initialised and %d init functions re-run at every process start", n, k))
	return touched
}

// ---------------------------------------------------------------- goroutines

func simosCall(fn string, args ...ast.Expr) *ast.CallExpr {
	return &ast.CallExpr{Fun: &ast.SelectorExpr{X: ast.NewIdent("verifsimos"), Sel: ast.NewIdent(fn)}, Args: args}
}

func strLit(s string) ast.Expr { return &ast.BasicLit{Kind: token.STRING, Value: strconv.Quote(s)} }

// syncOpAtLevel reports whether statement s, not counting nested blocks and
// function literals, performs an operation at which goroutines meet: a channel
// send, receive or close, a select, or a call of a method of a package sync
// type or of a sync/atomic function.
func syncOpAtLevel(s ast.Node, info *types.Info) bool {
	found := false
	first := true
	ast.Inspect(s, func(n ast.Node) bool {
		if found || n == nil {
			return false
		}
		switch x := n.(type) {
		case *ast.BlockStmt:
			if !first {
				return false
			}
		case *ast.FuncLit:
			return false
		case *ast.GoStmt, *ast.DeferStmt:
			if !first {
				return false
			}
		case *ast.SelectStmt, *ast.SendStmt:
			found = true
		case *ast.UnaryExpr:
			if x.Op == token.ARROW {
				found = true
			}
		case *ast.RangeStmt:
			if tv, ok := info.Types[x.X]; ok && tv.Type != nil {
				if _, isChan := tv.Type.Underlying().(*types.Chan); isChan {
					found = true
				}
			}
		case *ast.CallExpr:
			switch f := x.Fun.(type) {
			case *ast.Ident:
				if f.Name == "close" {
					if _, isBuiltin := info.Uses[f].(*types.Builtin); isBuiltin {
						found = true
					}
				}
			case *ast.SelectorExpr:
				if sel := info.Selections[f]; sel != nil && sel.Obj().Pkg() != nil && sel.Obj().Pkg().Path() == "sync" {
					switch f.Sel.Name {
					case "Lock", "RLock", "Wait", "Do", "Unlock", "RUnlock", "Done", "Broadcast", "Signal":
						found = true
					}
				}
				if obj := info.Uses[f.Sel]; obj != nil && obj.Pkg() != nil && obj.Pkg().Path() == "sync/atomic" {
					found = true
				}
			}
		}
		first = false
		return !found
	})
	return found
}

// instrumentConcurrency gives every go statement an identity and puts a yield
// point before and after every statement at which goroutines meet.
func instrumentConcurrency(fset *token.FileSet, af *ast.File, info *types.Info, relRoot string) bool {
	changed := false
	sawGo := false
	site := func(n ast.Node) string {
		pos := fset.Position(n.Pos())
		rel, _ := filepath.Rel(relRoot, pos.Filename)
		return fmt.Sprintf("%s:%d", filepath.ToSlash(rel), pos.Line)
	}
	yield := func(where string) ast.Stmt {
		rep.YieldPoints++
		return &ast.ExprStmt{X: simosCall("Yield", strLit(where))}
	}
	doneGo := map[*ast.GoStmt]bool{}
	doneSel := map[*ast.SelectStmt]bool{}
	rewriteGo := func(st *ast.GoStmt) ast.Stmt {
		sawGo = true
		doneGo[st] = true
		where := site(st)
		rep.GoStatements = append(rep.GoStatements, where)
		spawn := &ast.AssignStmt{Lhs: []ast.Expr{ast.NewIdent("verifGid")}, Tok: token.DEFINE, Rhs: []ast.Expr{simosCall("Spawn", strLit(where))}}
		born := &ast.ExprStmt{X: simosCall("Born", ast.NewIdent("verifGid"))}
		// defer func() { r := recover(); verifsimos.Ended(); if r != nil { verifsimos.GoroutineCrashed(r) } }()
		guard := &ast.DeferStmt{Call: &ast.CallExpr{Fun: &ast.FuncLit{Type: &ast.FuncType{Params: &ast.FieldList{}}, Body: &ast.BlockStmt{List: []ast.Stmt{
			&ast.AssignStmt{Lhs: []ast.Expr{ast.NewIdent("r")}, Tok: token.DEFINE, Rhs: []ast.Expr{&ast.CallExpr{Fun: ast.NewIdent("recover")}}},
			&ast.ExprStmt{X: simosCall("Ended")},
			&ast.IfStmt{
				Cond: &ast.BinaryExpr{X: ast.NewIdent("r"), Op: token.NEQ, Y: ast.NewIdent("nil")},
				Body: &ast.BlockStmt{List: []ast.Stmt{&ast.ExprStmt{X: simosCall("GoroutineCrashed", ast.NewIdent("r"))}}},
			},
		}}}}}
		if fl, ok := st.Call.Fun.(*ast.FuncLit); ok {
			fl.Body.List = append([]ast.Stmt{guard, born}, fl.Body.List...)
			return &ast.BlockStmt{List: []ast.Stmt{spawn, st}}
		}
		// go f(args): the function value and the arguments are evaluated by
		// the parent, as the language says; the call itself moves into a
		// literal that first takes its identity
		list := []ast.Stmt{spawn}
		fun := st.Call.Fun
		direct := false
		switch f := fun.(type) {
		case *ast.Ident:
			_, direct = info.Uses[f].(*types.Func)
		case *ast.SelectorExpr:
			if info.Selections[f] == nil { // pkg.Func
				_, direct = info.Uses[f.Sel].(*types.Func)
			}
		}
		if !direct {
			list = append(list, &ast.AssignStmt{Lhs: []ast.Expr{ast.NewIdent("verifFn")}, Tok: token.DEFINE, Rhs: []ast.Expr{fun}})
			fun = ast.NewIdent("verifFn")
		}
		var args []ast.Expr
		for i, a := range st.Call.Args {
			tv := info.Types[a]
			if tv.Value != nil || tv.IsNil() || tv.Type == nil {
				args = append(args, a) // constants and nil need no early evaluation
				continue
			}
			name := fmt.Sprintf("verifA%d", i)
			list = append(list, &ast.AssignStmt{Lhs: []ast.Expr{ast.NewIdent(name)}, Tok: token.DEFINE, Rhs: []ast.Expr{a}})
			args = append(args, ast.NewIdent(name))
		}
		call := &ast.CallExpr{Fun: fun, Args: args, Ellipsis: st.Call.Ellipsis}
		if st.Call.Ellipsis.IsValid() {
			call.Ellipsis = token.Pos(1)
		}
		lit := &ast.FuncLit{Type: &ast.FuncType{Params: &ast.FieldList{}}, Body: &ast.BlockStmt{List: []ast.Stmt{guard, born, &ast.ExprStmt{X: call}}}}
		ngs := &ast.GoStmt{Call: &ast.CallExpr{Fun: lit}}
		doneGo[ngs] = true
		list = append(list, ngs)
		return &ast.BlockStmt{List: list}
	}
	process := func(list []ast.Stmt) []ast.Stmt {
		if len(list) > 0 {
			// the body of a switch or select is a list of clauses, not of statements
			switch list[0].(type) {
			case *ast.CaseClause, *ast.CommClause:
				return list
			}
		}
		var out []ast.Stmt
		for _, s := range list {
			inner := s
			if ls, ok := s.(*ast.LabeledStmt); ok {
				inner = ls.Stmt
			}
			if gs, ok := inner.(*ast.GoStmt); ok && !doneGo[gs] {
				blk := rewriteGo(gs)
				if ls, ok := s.(*ast.LabeledStmt); ok {
					ls.Stmt = blk
					out = append(out, ls)
				} else {
					out = append(out, blk)
				}
				changed = true
				continue
			}
			if ss, ok := inner.(*ast.SelectStmt); ok && doneSel[ss] {
				out = append(out, s)
				continue
			}
			if isSimosStmt(s) || !syncOpAtLevel(s, info) {
				out = append(out, s)
				continue
			}
			changed = true
			where := site(s)
			out = append(out, yield(where), s)
			switch x := inner.(type) {
			case *ast.ReturnStmt, *ast.BranchStmt:
			case *ast.ForStmt:
				// a loop whose condition polls: every iteration is a meeting point
				x.Body.List = append([]ast.Stmt{yield(where + " loop")}, x.Body.List...)
				out = append(out, yield(where+" after"))
			case *ast.RangeStmt:
				x.Body.List = append([]ast.Stmt{yield(where + " loop")}, x.Body.List...)
				out = append(out, yield(where+" after"))
			case *ast.SelectStmt:
				for _, c := range x.Body.List {
					cc := c.(*ast.CommClause)
					cc.Body = append([]ast.Stmt{yield(where + " woke")}, cc.Body...)
				}
				if det := orderedSelect(fset, x, where); det != nil {
					ast.Inspect(det, func(n ast.Node) bool {
						if ss, ok := n.(*ast.SelectStmt); ok {
							doneSel[ss] = true
						}
						return true
					})
					// replace the select just appended by its ordered form
					if ls, ok := s.(*ast.LabeledStmt); ok {
						ls.Stmt = det
					} else {
						out[len(out)-1] = det
					}
				}
			default:
				out = append(out, yield(where+" after"))
			}
		}
		return out
	}
	ast.Inspect(af, func(n ast.Node) bool {
		switch x := n.(type) {
		case *ast.BlockStmt:
			x.List = process(x.List)
		case *ast.CaseClause:
			x.Body = process(x.Body)
		case *ast.CommClause:
			x.Body = process(x.Body)
		}
		return true
	})
	if treeHasGo {
		// A tree with goroutines: plain memory is shared too, so a goroutine
		// must be pre-emptible between any two calls and loop iterations, not
		// only where it synchronises. Every function body and every loop body
		// begins with a yield point (free while only one goroutine exists).
		ast.Inspect(af, func(n ast.Node) bool {
			var body *ast.BlockStmt
			switch x := n.(type) {
			case *ast.FuncDecl:
				if x.Name.Name == "init" && x.Recv == nil {
					return true
				}
				body = x.Body
			case *ast.FuncLit:
				if !x.Pos().IsValid() {
					return false // generated by this program
				}
				body = x.Body
			case *ast.ForStmt:
				body = x.Body
			case *ast.RangeStmt:
				body = x.Body
			}
			if body == nil {
				return true
			}
			// after the goroutine prologue (guard, Born), if there is one
			at := 0
			for at < len(body.List) && isPrologue(body.List[at]) {
				at++
			}
			if at < len(body.List) && isSimosStmt(body.List[at]) {
				return true // already a yield point
			}
			y := yield(site(body))
			body.List = append(body.List[:at:at], append([]ast.Stmt{y}, body.List[at:]...)...)
			changed = true
			return true
		})
	}
	if sawGo {
		af.Decls = append(af.Decls, &ast.FuncDecl{Name: ast.NewIdent("init"), Type: &ast.FuncType{Params: &ast.FieldList{}}, Body: &ast.BlockStmt{List: []ast.Stmt{
			&ast.AssignStmt{Lhs: []ast.Expr{&ast.SelectorExpr{X: ast.NewIdent("verifsimos"), Sel: ast.NewIdent("TreeHasGoroutines")}}, Tok: token.ASSIGN, Rhs: []ast.Expr{ast.NewIdent("true")}},
		}}})
	}
	return changed
}

// isPrologue recognises what rewriteGo puts at the top of a goroutine body.
func isPrologue(s ast.Stmt) bool {
	if _, ok := s.(*ast.DeferStmt); ok {
		found := false
		ast.Inspect(s, func(n ast.Node) bool {
			if id, ok := n.(*ast.Ident); ok && id.Name == "GoroutineCrashed" {
				found = true
			}
			return !found
		})
		return found
	}
	if es, ok := s.(*ast.ExprStmt); ok {
		if ce, ok := es.X.(*ast.CallExpr); ok {
			if se, ok := ce.Fun.(*ast.SelectorExpr); ok && se.Sel.Name == "Born" {
				return true
			}
		}
	}
	return false
}

// treeHasGo: some package of the tree under test contains a go statement
// (found by a syntactic pre-scan before anything is rewritten).
var treeHasGo bool

func prescanGo(dirs ...string) {
	fset := token.NewFileSet()
	for _, dir := range dirs {
		ents, err := os.ReadDir(dir)
		if err != nil {
			die("%v", err)
		}
		for _, e := range ents {
			n := e.Name()
			if e.IsDir() || !strings.HasSuffix(n, ".go") || strings.HasSuffix(n, "_test.go") {
				continue
			}
			af, err := parser.ParseFile(fset, filepath.Join(dir, n), nil, parser.SkipObjectResolution)
			if err != nil {
				continue
			}
			if af.Name.Name == "main" && dir != dirs[0] && dir != dirs[1] {
				continue
			}
			ast.Inspect(af, func(n ast.Node) bool {
				if _, ok := n.(*ast.GoStmt); ok {
					treeHasGo = true
				}
				return !treeHasGo
			})
		}
	}
}

func isSimosStmt(s ast.Stmt) bool {
	es, ok := s.(*ast.ExprStmt)
	if !ok {
		return false
	}
	ce, ok := es.X.(*ast.CallExpr)
	if !ok {
		return false
	}
	se, ok := ce.Fun.(*ast.SelectorExpr)
	if !ok {
		return false
	}
	id, ok := se.X.(*ast.Ident)
	return ok && id.Name == "verifsimos"
}

// ---------------------------------------------------------------- select

// orderedSelect removes the one source of nondeterminism the scheduler cannot
// own otherwise: when several cases of a select are ready, Go picks one at
// random. A select whose cases are all receives (plus, possibly, a default) is
// rewritten into polls of one case at a time, in source order or in reverse
// order as the simulator says, followed by the original select for the case
// that none is ready:
//
//	if verifsimos.SelectForward(site) {
//		select { case A: ...; default: select { case B: ...; default: <original> } }
//	} else {
//		select { case B: ...; default: select { case A: ...; default: <original> } }
//	}
//
// Bodies are copied, so break, continue and return keep their meaning. Selects
// with a send case, with fewer than two receive cases, or with a label inside
// a body are left alone (nil is returned).
func orderedSelect(fset *token.FileSet, sel *ast.SelectStmt, site string) ast.Stmt {
	var recvs []*ast.CommClause
	for _, c := range sel.Body.List {
		cc := c.(*ast.CommClause)
		if cc.Comm == nil {
			continue
		}
		if _, isSend := cc.Comm.(*ast.SendStmt); isSend {
			return nil
		}
		recvs = append(recvs, cc)
	}
	if len(recvs) < 2 || len(recvs) > 4 {
		return nil
	}
	hasLabel := false
	ast.Inspect(sel, func(n ast.Node) bool {
		if _, ok := n.(*ast.LabeledStmt); ok {
			hasLabel = true
		}
		return !hasLabel
	})
	if hasLabel {
		return nil
	}
	// the channel operands are evaluated once, in source order, as the
	// language says; the copies below all use the values
	var hoist []ast.Stmt
	for i, cc := range recvs {
		var u *ast.UnaryExpr
		switch c := cc.Comm.(type) {
		case *ast.ExprStmt:
			u, _ = c.X.(*ast.UnaryExpr)
		case *ast.AssignStmt:
			if len(c.Rhs) == 1 {
				u, _ = c.Rhs[0].(*ast.UnaryExpr)
			}
		}
		if u == nil || u.Op != token.ARROW {
			return nil
		}
		name := fmt.Sprintf("verifC%d", i)
		hoist = append(hoist, &ast.AssignStmt{Lhs: []ast.Expr{ast.NewIdent(name)}, Tok: token.DEFINE, Rhs: []ast.Expr{u.X}})
		u.X = ast.NewIdent(name)
	}
	var text bytes.Buffer
	if err := printer.Fprint(&text, fset, sel); err != nil {
		return nil
	}
	clone := func() *ast.SelectStmt {
		src := "package p\nfunc _() {\n" + text.String() + "\n}\n"
		f, err := parser.ParseFile(token.NewFileSet(), "", src, parser.SkipObjectResolution)
		if err != nil {
			return nil
		}
		c := f.Decls[0].(*ast.FuncDecl).Body.List[0].(*ast.SelectStmt)
		clearPos(reflect.ValueOf(c))
		return c
	}
	build := func(order []int) ast.Stmt {
		var inner ast.Stmt
		last := clone()
		if last == nil {
			return nil
		}
		inner = last
		for k := len(order) - 1; k >= 0; k-- {
			c := clone()
			if c == nil {
				return nil
			}
			var pick *ast.CommClause
			n := 0
			for _, cl := range c.Body.List {
				cc := cl.(*ast.CommClause)
				if cc.Comm == nil {
					continue
				}
				if n == order[k] {
					pick = cc
				}
				n++
			}
			inner = &ast.SelectStmt{Body: &ast.BlockStmt{List: []ast.Stmt{
				pick,
				&ast.CommClause{Body: []ast.Stmt{inner}},
			}}}
		}
		return inner
	}
	fwd, rev := make([]int, len(recvs)), make([]int, len(recvs))
	for i := range recvs {
		fwd[i], rev[i] = i, len(recvs)-1-i
	}
	f, r := build(fwd), build(rev)
	if f == nil || r == nil {
		return nil
	}
	rep.OrderedSelects++
	return &ast.BlockStmt{List: append(hoist, &ast.IfStmt{
		Cond: simosCall("SelectForward", strLit(site)),
		Body: &ast.BlockStmt{List: []ast.Stmt{f}},
		Else: &ast.BlockStmt{List: []ast.Stmt{r}},
	})}
}

var posType = reflect.TypeOf(token.NoPos)

// clearPos zeroes every position in a syntax tree that was parsed from
// generated text, so that the printer lays it out from scratch.
func clearPos(v reflect.Value) {
	switch v.Kind() {
	case reflect.Pointer, reflect.Interface:
		if !v.IsNil() {
			clearPos(v.Elem())
		}
	case reflect.Struct:
		for i := 0; i < v.NumField(); i++ {
			f := v.Field(i)
			if f.Type() == posType {
				if f.CanSet() {
					f.SetInt(0)
				}
				continue
			}
			if v.Type().Field(i).Name == "Obj" {
				continue // *ast.Object cycles
			}
			clearPos(f)
		}
	case reflect.Slice:
		for i := 0; i < v.Len(); i++ {
			clearPos(v.Index(i))
		}
	}
}
