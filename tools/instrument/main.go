// instrument rewrites a scratch copy of josephburnett/jd so that the simulator
// owns every source of nondeterminism the claimed properties depend on.
//
// It performs three mechanical rewrites on the copy (never on /repo):
//
//  1. map-order seam: every `range m` whose operand has a map underlying type,
//     in the non-test files of the given library packages and of both main
//     packages, becomes `range verifseam.Map("<file:line>", m)`.
//     Sites are found by type-checking, so a changed tree with new or moved map
//     loops is instrumented without anybody maintaining a list.
//  2. main -> package: `package main` / `func main()` of the two CLI files become
//     importable packages with an exported `Main()`.
//  3. OS seam by import substitution, in those main files only: os, io/ioutil,
//     fmt, log, flag, net/http, os/exec, math/rand are pointed at shim packages.
//
// Usage: instrument -root <copy of repo> [-report file]
//
// Exit status: 0 ok, 2 on any problem (the caller reports INFRA-ERROR).
package main

import (
	"bytes"
	"encoding/json"
	"flag"
	"fmt"
	"go/ast"
	"go/format"
	"go/importer"
	"go/parser"
	"go/token"
	"go/types"
	"io"
	"os"
	"os/exec"
	"path/filepath"
	"sort"
	"strconv"
	"strings"
)

const (
	seamImport = "github.com/josephburnett/jd/v2/verif/seam"
	simosImport = "github.com/josephburnett/jd/v2/verif/simos"
	shimPrefix = "github.com/josephburnett/jd/v2/verif/shim/"
)

type listedPkg struct {
	ImportPath string
	Export     string
	Dir        string
	GoFiles    []string
	Standard   bool
	Error      *struct{ Err string }
}

type siteReport struct {
	Site string `json:"site"`
	Key  string `json:"key_type"`
}

type report struct {
	MapRangeSites []siteReport `json:"map_range_sites"`
	Mains         []string     `json:"mains"`
	ShimmedImport []string     `json:"shimmed_imports"`
	GlobalsReset  []string     `json:"globals_reset"`
}

var rep report

func die(f string, a ...any) {
	fmt.Fprintf(os.Stderr, "instrument: "+f+"\n", a...)
	os.Exit(2)
}

func goList(dir string, pkgs ...string) map[string]*listedPkg {
	args := append([]string{"list", "-e", "-export", "-deps", "-json"}, pkgs...)
	cmd := exec.Command(goBin(), args...)
	cmd.Dir = dir
	var out, errb bytes.Buffer
	cmd.Stdout = &out
	cmd.Stderr = &errb
	if err := cmd.Run(); err != nil {
		die("go list in %s: %v\n%s", dir, err, errb.String())
	}
	res := map[string]*listedPkg{}
	dec := json.NewDecoder(&out)
	for {
		var p listedPkg
		if err := dec.Decode(&p); err == io.EOF {
			break
		} else if err != nil {
			die("go list json: %v", err)
		}
		pp := p
		res[p.ImportPath] = &pp
	}
	return res
}

func goBin() string {
	if g := os.Getenv("VERIF_GO"); g != "" {
		return g
	}
	return "go"
}

// instrumentMapRanges type-checks package pkgPath (rooted at modDir, living in
// dir) and rewrites map ranges in its non-test Go files. relRoot is the copy
// root, used to render site names.
func instrumentMapRanges(relRoot, modDir, pkgPattern string, isMain bool) {
	listed := goList(modDir, pkgPattern)
	var target *listedPkg
	absDir, _ := filepath.Abs(filepath.Join(modDir, pkgPattern))
	for _, p := range listed {
		if p.Dir == absDir {
			target = p
		}
	}
	if target == nil {
		die("package %s not found under %s", pkgPattern, modDir)
	}
	fset := token.NewFileSet()
	var files []*ast.File
	var names []string
	for _, f := range target.GoFiles {
		fn := filepath.Join(target.Dir, f)
		af, err := parser.ParseFile(fset, fn, nil, parser.ParseComments)
		if err != nil {
			die("parse %s: %v", fn, err)
		}
		files = append(files, af)
		names = append(names, fn)
	}
	lookup := func(path string) (io.ReadCloser, error) {
		p, ok := listed[path]
		if !ok || p.Export == "" {
			return nil, fmt.Errorf("no export data for %q", path)
		}
		return os.Open(p.Export)
	}
	conf := types.Config{
		Importer: importer.ForCompiler(fset, "gc", lookup),
		Error: func(err error) {
			if os.Getenv("VERIF_INSTRUMENT_DEBUG") != "" {
				fmt.Fprintln(os.Stderr, "instrument: type check:", err)
			}
		},
	}
	info := &types.Info{Types: map[ast.Expr]types.TypeAndValue{}, Defs: map[*ast.Ident]types.Object{}}
	_, _ = conf.Check(target.ImportPath, fset, files, info)
	mainTouched := map[int]bool{}
	if isMain {
		mainTouched = addProcessStart(files, info)
	}

	for i, af := range files {
		changed := false
		ast.Inspect(af, func(n ast.Node) bool {
			rs, ok := n.(*ast.RangeStmt)
			if !ok {
				return true
			}
			tv, ok := info.Types[rs.X]
			if !ok || tv.Type == nil {
				die("%s: no type for range operand at %s (type-check failed?)", names[i], fset.Position(rs.Pos()))
			}
			mt, ok := tv.Type.Underlying().(*types.Map)
			if !ok {
				return true
			}
			pos := fset.Position(rs.Pos())
			rel, _ := filepath.Rel(relRoot, pos.Filename)
			site := fmt.Sprintf("%s:%d", filepath.ToSlash(rel), pos.Line)
			rs.X = &ast.CallExpr{
				Fun: &ast.SelectorExpr{X: ast.NewIdent("verifseam"), Sel: ast.NewIdent("Map")},
				Args: []ast.Expr{
					&ast.BasicLit{Kind: token.STRING, Value: strconv.Quote(site)},
					rs.X,
				},
			}
			rep.MapRangeSites = append(rep.MapRangeSites, siteReport{Site: site, Key: mt.Key().String()})
			changed = true
			return true
		})
		if !isMain && addGlobalsReset(af, info, i) {
			addImport(af, "verifsimos", simosImport)
			changed = true
		}
		if mainTouched[i] {
			addImport(af, "verifsimos", simosImport)
			changed = true
		}
		if changed {
			if usesSeam(af) {
				addImport(af, "verifseam", seamImport)
			}
			writeFile(fset, af, names[i])
		}
	}
}

func usesSeam(af *ast.File) bool {
	found := false
	ast.Inspect(af, func(n ast.Node) bool {
		if se, ok := n.(*ast.SelectorExpr); ok {
			if id, ok := se.X.(*ast.Ident); ok && id.Name == "verifseam" {
				found = true
			}
		}
		return !found
	})
	return found
}

// safeInit reports whether re-evaluating a package-level initialiser at the
// start of every simulated process is harmless: literals, composite literals,
// identifiers, operators, builtins and conversions, but no other call.
func safeInit(e ast.Expr, info *types.Info) bool {
	ok := true
	ast.Inspect(e, func(n ast.Node) bool {
		switch c := n.(type) {
		case *ast.CallExpr:
			if tv, found := info.Types[c.Fun]; found && (tv.IsType() || tv.IsBuiltin()) {
				return true
			}
			ok = false
		case *ast.FuncLit:
			return false // a function value: fine, do not look inside
		}
		return ok
	})
	return ok
}

// addGlobalsReset appends to file af a function that puts the package-level
// variables declared in af back to their initial values, and registers it with
// the simulator, which calls it before every simulated process: a real process
// starts with fresh globals, simulated processes share one Go program.
func addGlobalsReset(af *ast.File, info *types.Info, idx int) bool {
	var stmts []ast.Stmt
	for _, d := range af.Decls {
		gd, ok := d.(*ast.GenDecl)
		if !ok || gd.Tok != token.VAR {
			continue
		}
		for _, sp := range gd.Specs {
			vs := sp.(*ast.ValueSpec)
			for j, name := range vs.Names {
				if name.Name == "_" {
					continue
				}
				switch {
				case len(vs.Values) == 0 && vs.Type != nil:
					// zero value: { var z T; name = z }
					stmts = append(stmts, &ast.BlockStmt{List: []ast.Stmt{
						&ast.DeclStmt{Decl: &ast.GenDecl{Tok: token.VAR, Specs: []ast.Spec{&ast.ValueSpec{Names: []*ast.Ident{ast.NewIdent("z")}, Type: vs.Type}}}},
						&ast.AssignStmt{Lhs: []ast.Expr{ast.NewIdent(name.Name)}, Tok: token.ASSIGN, Rhs: []ast.Expr{ast.NewIdent("z")}},
					}})
				case len(vs.Values) == len(vs.Names) && safeInit(vs.Values[j], info):
					rhs := vs.Values[j]
					if vs.Type != nil {
						rhs = &ast.CallExpr{Fun: &ast.ParenExpr{X: vs.Type}, Args: []ast.Expr{rhs}}
					}
					stmts = append(stmts, &ast.AssignStmt{Lhs: []ast.Expr{ast.NewIdent(name.Name)}, Tok: token.ASSIGN, Rhs: []ast.Expr{rhs}})
				}
			}
		}
	}
	if len(stmts) == 0 {
		return false
	}
	fn := fmt.Sprintf("verifResetGlobals%d", idx)
	af.Decls = append(af.Decls,
		&ast.FuncDecl{Name: ast.NewIdent(fn), Type: &ast.FuncType{Params: &ast.FieldList{}}, Body: &ast.BlockStmt{List: stmts}},
		&ast.FuncDecl{Name: ast.NewIdent("init"), Type: &ast.FuncType{Params: &ast.FieldList{}}, Body: &ast.BlockStmt{List: []ast.Stmt{
			&ast.ExprStmt{X: &ast.CallExpr{Fun: &ast.SelectorExpr{X: ast.NewIdent("verifsimos"), Sel: ast.NewIdent("OnReset")}, Args: []ast.Expr{ast.NewIdent(fn)}}},
		}}},
	)
	rep.GlobalsReset = append(rep.GlobalsReset, fmt.Sprintf("%s: %d variables", af.Name.Name+"/"+fn, len(stmts)))
	return true
}

func addImport(af *ast.File, name, path string) {
	spec := &ast.ImportSpec{
		Name: ast.NewIdent(name),
		Path: &ast.BasicLit{Kind: token.STRING, Value: strconv.Quote(path)},
	}
	decl := &ast.GenDecl{Tok: token.IMPORT, Specs: []ast.Spec{spec}}
	af.Decls = append([]ast.Decl{decl}, af.Decls...)
	af.Imports = append(af.Imports, spec)
}

func writeFile(fset *token.FileSet, af *ast.File, name string) {
	var buf bytes.Buffer
	if err := format.Node(&buf, fset, af); err != nil {
		die("format %s: %v", name, err)
	}
	if err := os.WriteFile(name, buf.Bytes(), 0o644); err != nil {
		die("write %s: %v", name, err)
	}
}

var shimOf = map[string]string{
	"os":        "os",
	"io/ioutil": "ioutil",
	"fmt":       "fmt",
	"log":       "log",
	"net/http":  "http",
	"os/exec":   "exec",
	"math/rand": "rand",
	"time":      "time",
	"context":   "context",
	// "flag" is per binary, see below
}

// libShimOf: what the library packages get. The clock seam, and the file
// system in case a tree moves its file reading into library functions.
// math/rand stays real there: a library that draws random numbers is
// nondeterministic across processes, which is for C15 to see.
var libShimOf = map[string]string{
	"os":        "os",
	"io/ioutil": "ioutil",
	"time":      "time",
	"context":   "context",
}

// shimLibrary points the effectful imports of the library package in dir at
// the shims.
func shimLibrary(dir string) {
	ents, err := os.ReadDir(dir)
	if err != nil {
		die("%v", err)
	}
	fset := token.NewFileSet()
	for _, e := range ents {
		n := e.Name()
		if e.IsDir() || !strings.HasSuffix(n, ".go") || strings.HasSuffix(n, "_test.go") {
			continue
		}
		fn := filepath.Join(dir, n)
		af, err := parser.ParseFile(fset, fn, nil, parser.ParseComments)
		if err != nil {
			die("parse %s: %v", fn, err)
		}
		changed := false
		for _, im := range af.Imports {
			p, _ := strconv.Unquote(im.Path.Value)
			shim, ok := libShimOf[p]
			if !ok {
				continue
			}
			local := filepath.Base(p)
			if im.Name != nil {
				local = im.Name.Name
			}
			im.Name = ast.NewIdent(local)
			im.Path.Value = strconv.Quote(shimPrefix + shim)
			rep.ShimmedImport = append(rep.ShimmedImport, fmt.Sprintf("%s: %s -> %s", fn, p, shimPrefix+shim))
			changed = true
		}
		if changed {
			writeFile(fset, af, fn)
		}
	}
}

// convertMain turns the single-file main package in dir into an importable
// package pkgName with func Main(), and points effectful imports at shims.
func convertMain(dir, pkgName, flagShim string) {
	ents, err := os.ReadDir(dir)
	if err != nil {
		die("%v", err)
	}
	fset := token.NewFileSet()
	found := false
	for _, e := range ents {
		n := e.Name()
		if e.IsDir() || !strings.HasSuffix(n, ".go") {
			continue
		}
		fn := filepath.Join(dir, n)
		if strings.HasSuffix(n, "_test.go") {
			// tests of package main cannot live next to the converted package
			if err := os.Remove(fn); err != nil {
				die("%v", err)
			}
			continue
		}
		af, err := parser.ParseFile(fset, fn, nil, parser.ParseComments)
		if err != nil {
			die("parse %s: %v", fn, err)
		}
		if af.Name.Name != "main" {
			continue
		}
		af.Name.Name = pkgName
		for _, d := range af.Decls {
			if fd, ok := d.(*ast.FuncDecl); ok && fd.Recv == nil && fd.Name.Name == "main" {
				fd.Name.Name = "Main"
				found = true
			}
		}
		for _, im := range af.Imports {
			p, _ := strconv.Unquote(im.Path.Value)
			var shim string
			if p == "flag" {
				shim = flagShim
			} else if s, ok := shimOf[p]; ok {
				shim = s
			} else {
				continue
			}
			local := filepath.Base(p)
			if im.Name != nil {
				local = im.Name.Name
			}
			im.Name = ast.NewIdent(local)
			im.Path.Value = strconv.Quote(shimPrefix + shim)
			rep.ShimmedImport = append(rep.ShimmedImport, fmt.Sprintf("%s: %s -> %s", fn, p, shimPrefix+shim))
		}
		writeFile(fset, af, fn)
		rep.Mains = append(rep.Mains, fn)
	}
	if !found {
		die("no func main() in %s", dir)
	}
}

func main() {
	root := flag.String("root", "", "root of the scratch copy of the repository")
	reportFile := flag.String("report", "", "write a JSON report here")
	flag.Parse()
	if *root == "" {
		die("-root required")
	}
	r, err := filepath.Abs(*root)
	if err != nil {
		die("%v", err)
	}
	// Order matters: type-check while the tree is still the original program.
	// the main packages first: their type check needs the export data of the
	// libraries as they are in the original program
	instrumentMapRanges(r, filepath.Join(r, "v2"), "./jd", true)
	instrumentMapRanges(r, r, ".", true)
	instrumentMapRanges(r, filepath.Join(r, "v2"), ".", false)
	instrumentMapRanges(r, r, "./lib", false)
	shimLibrary(filepath.Join(r, "v2"))
	shimLibrary(filepath.Join(r, "lib"))
	convertMain(filepath.Join(r, "v2", "jd"), "jdv2", "flagv2")
	convertMain(r, "jdtop", "flagtop")
	sort.Slice(rep.MapRangeSites, func(i, j int) bool { return rep.MapRangeSites[i].Site < rep.MapRangeSites[j].Site })
	if *reportFile != "" {
		b, _ := json.MarshalIndent(rep, "", " ")
		if err := os.WriteFile(*reportFile, b, 0o644); err != nil {
			die("%v", err)
		}
	}
}

// addProcessStart makes a main package start afresh for every simulated
// process, the way a real process does: every package-level variable is
// re-initialised in the order the Go specification prescribes (types.Info's
// InitOrder), flag definitions included (the flag shim hands out a new flag set
// per process), variables without an initialiser are zeroed, and the package's
// init functions run again. It returns the indices of the files it changed.
func addProcessStart(files []*ast.File, info *types.Info) map[int]bool {
	touched := map[int]bool{}
	// file extents, taken before any declaration is appended (appended
	// declarations have no positions and would move File.End)
	type span struct{ lo, hi token.Pos }
	spans := make([]span, len(files))
	for i, f := range files {
		spans[i] = span{f.Pos(), f.End()}
	}
	fileOf := func(pos token.Pos) int {
		for i, sp := range spans {
			if sp.lo <= pos && pos <= sp.hi {
				return i
			}
		}
		return -1
	}
	var calls []ast.Stmt
	n := 0
	addFunc := func(fi int, body []ast.Stmt) {
		name := fmt.Sprintf("verifStart%d", n)
		n++
		files[fi].Decls = append(files[fi].Decls, &ast.FuncDecl{Name: ast.NewIdent(name), Type: &ast.FuncType{Params: &ast.FieldList{}}, Body: &ast.BlockStmt{List: body}})
		calls = append(calls, &ast.ExprStmt{X: &ast.CallExpr{Fun: ast.NewIdent(name)}})
		touched[fi] = true
	}
	initialised := map[string]bool{}
	// 1. variables without an initialiser: zero value
	for fi, af := range files {
		for _, d := range af.Decls {
			gd, ok := d.(*ast.GenDecl)
			if !ok || gd.Tok != token.VAR {
				continue
			}
			for _, sp := range gd.Specs {
				vs := sp.(*ast.ValueSpec)
				if len(vs.Values) != 0 || vs.Type == nil {
					continue
				}
				for _, name := range vs.Names {
					if name.Name == "_" {
						continue
					}
					addFunc(fi, []ast.Stmt{
						&ast.DeclStmt{Decl: &ast.GenDecl{Tok: token.VAR, Specs: []ast.Spec{&ast.ValueSpec{Names: []*ast.Ident{ast.NewIdent("z")}, Type: vs.Type}}}},
						&ast.AssignStmt{Lhs: []ast.Expr{ast.NewIdent(name.Name)}, Tok: token.ASSIGN, Rhs: []ast.Expr{ast.NewIdent("z")}},
					})
					initialised[name.Name] = true
				}
			}
		}
	}
	// 2. initialisers, in initialisation order
	if os.Getenv("VERIF_INSTRUMENT_DEBUG") != "" {
		fmt.Fprintln(os.Stderr, "instrument: InitOrder has", len(info.InitOrder), "entries")
	}
	for _, in := range info.InitOrder {
		fi := fileOf(in.Rhs.Pos())
		if fi < 0 {
			continue
		}
		var lhs []ast.Expr
		for _, v := range in.Lhs {
			lhs = append(lhs, ast.NewIdent(v.Name()))
		}
		if len(lhs) == 0 {
			lhs = []ast.Expr{ast.NewIdent("_")}
		}
		addFunc(fi, []ast.Stmt{&ast.AssignStmt{Lhs: lhs, Tok: token.ASSIGN, Rhs: []ast.Expr{in.Rhs}}})
	}
	// 3. init functions run again (renamed so that they can be called)
	k := 0
	var firstFile = -1
	for fi, af := range files {
		if firstFile < 0 {
			firstFile = fi
		}
		for _, d := range af.Decls {
			fd, ok := d.(*ast.FuncDecl)
			if !ok || fd.Recv != nil || fd.Name.Name != "init" {
				continue
			}
			fd.Name.Name = fmt.Sprintf("verifOrigInit%d", k)
			calls = append(calls, &ast.ExprStmt{X: &ast.CallExpr{Fun: ast.NewIdent(fd.Name.Name)}})
			k++
			touched[fi] = true
		}
	}
	if len(calls) == 0 || firstFile < 0 {
		return touched
	}
	// registration: the original init functions must still run once at program
	// start (they were renamed), then everything is registered for re-running
	var initBody []ast.Stmt
	for _, c := range calls {
		if ce, ok := c.(*ast.ExprStmt).X.(*ast.CallExpr); ok {
			if id, ok := ce.Fun.(*ast.Ident); ok && len(id.Name) > 13 && id.Name[:13] == "verifOrigInit" {
				initBody = append(initBody, c)
			}
		}
	}
	files[firstFile].Decls = append(files[firstFile].Decls,
		&ast.FuncDecl{Name: ast.NewIdent("verifProcessStart"), Type: &ast.FuncType{Params: &ast.FieldList{}}, Body: &ast.BlockStmt{List: calls}},
	)
	initBody = append(initBody, &ast.ExprStmt{X: &ast.CallExpr{Fun: &ast.SelectorExpr{X: ast.NewIdent("verifsimos"), Sel: ast.NewIdent("OnProcessStart")}, Args: []ast.Expr{ast.NewIdent("verifProcessStart")}}})
	files[firstFile].Decls = append(files[firstFile].Decls,
		&ast.FuncDecl{Name: ast.NewIdent("init"), Type: &ast.FuncType{Params: &ast.FieldList{}}, Body: &ast.BlockStmt{List: initBody}},
	)
	touched[firstFile] = true
	rep.GlobalsReset = append(rep.GlobalsReset, fmt.Sprintf("main package: %d variables re-initialised and %d init functions re-run at every process start", n, k))
	return touched
}
