#!/bin/bash
# run_benign.sh [ids...] : a change that preserves the properties must not be
# reported by any check. Applies each benign/Bxx/patch.diff to a scratch copy and
# runs all three quick checks; appends to benign/results.txt.
cd "$(dirname "$0")/.."
ids="$@"; [ -n "$ids" ] || ids=$(ls benign | grep '^B')
for id in $ids; do
  tools/try_seeded.sh "$PWD/benign/$id/patch.diff" C13 C14 C15 2>&1 | grep -v WARNING | while read -r l; do echo "$id $l" | cut -c1-500 | tee -a benign/results.txt; done
done
