#!/bin/bash
# Runs the repository's own test suite the way /root/.vp/BASELINE.json does
# (modules . and ./v2, cached go1.24.0 toolchain through GOTOOLCHAIN=auto) on
# /repo as it is, and compares the set of passing tests with the baseline's
# stable_pass list. /repo carries no verification hook, so "guard off" is the
# only configuration there is. Exit 0 iff every baseline test still passes.
unset GOTOOLCHAIN GOSUMDB
export GOFLAGS=-mod=mod GOPROXY=off
T=$(mktemp /var/tmp/jdbase.XXXXXX)
trap 'rm -f "$T"' EXIT
for m in . ./v2; do
  ( cd /repo/$m && go test -mod=mod -json -vet=off -count=1 -timeout 25m ./... ) >>"$T" 2>/dev/null
done
python3 - "$T" <<'P'
import json,sys
passed=set(); failed=set()
for l in open(sys.argv[1]):
    try: e=json.loads(l)
    except Exception: continue
    if 'Test' in e and e.get('Action') in('pass','fail'):
        (passed if e['Action']=='pass' else failed).add(e['Package']+'::'+e['Test'])
base=set(json.load(open('/root/.vp/BASELINE.json'))['stable_pass'])
missing=sorted(base-passed)
print(f"baseline tests: {len(base)}  passing now: {len(passed&base)}  failing: {len(failed)}  missing: {len(missing)}")
for t in (sorted(failed)+missing)[:20]: print("  NOT PASSING:",t)
sys.exit(1 if (failed or missing) else 0)
P
