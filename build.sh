#!/bin/bash
# build.sh <scratch-dir>
# Copies /repo's current working tree into <scratch-dir>, instruments the copy,
# and builds: <scratch>/bin/jdsim (simulator, instrumented jd inside),
# <scratch>/bin/jd-v2 and <scratch>/bin/jd-top (unmodified binaries, fidelity).
# Exit 2 on any problem (callers report INFRA-ERROR, never VIOLATION).
set -u
S="$1"
REPO="${VERIF_REPO:-/repo}"
HERE="$(cd "$(dirname "$0")" && pwd)"
export GOTOOLCHAIN=local GOSUMDB=off GOFLAGS=-mod=mod GOPROXY=off
export VERIF_GO="${VERIF_GO:-/opt/veriftools/go1.26.8/bin/go}"
GO="$VERIF_GO"
fail() { echo "INFRA-ERROR build: $*" >&2; exit 2; }

mkdir -p "$S/repo" "$S/plain" "$S/bin" || fail "mkdir"
rsync -a --delete --exclude .git --exclude release "$REPO"/ "$S/plain"/ || fail "copy"
rsync -a --delete "$S/plain"/ "$S/repo"/ || fail "copy2"

# unmodified binaries (fidelity cross-check)
( cd "$S/plain/v2" && "$GO" build -o "$S/bin/jd-v2" ./jd ) >"$S/build-plain.log" 2>&1 || { cat "$S/build-plain.log" >&2; fail "plain v2/jd does not build"; }
( cd "$S/plain" && "$GO" build -o "$S/bin/jd-top" . ) >>"$S/build-plain.log" 2>&1 || { cat "$S/build-plain.log" >&2; fail "plain top-level jd does not build"; }

# instrumenter
if [ ! -x "$HERE/tools/bin/instrument" ] || [ "$HERE/tools/instrument/main.go" -nt "$HERE/tools/bin/instrument" ]; then
  mkdir -p "$HERE/tools/bin"
  ( cd "$HERE/tools/instrument" && "$GO" build -o "$HERE/tools/bin/instrument" . ) || fail "instrumenter does not build"
fi
timeout 600 "$HERE/tools/bin/instrument" -root "$S/repo" -report "$S/instrument.json" || fail "instrumentation failed"

# simulator packages live inside the copy so that no go.mod changes
rm -rf "$S/repo/v2/verif" "$S/repo/verifsim"
mkdir -p "$S/repo/v2/verif" "$S/repo/verifsim"
cp -r "$HERE/sim/v2verif/." "$S/repo/v2/verif/" || fail "copy shims"
cp -r "$HERE/sim/harness/." "$S/repo/verifsim/" || fail "copy harness"
( cd "$S/repo" && "$GO" build -o "$S/bin/jdsim" ./verifsim ) >"$S/build-sim.log" 2>&1 || { cat "$S/build-sim.log" >&2; fail "simulator does not build against this tree"; }
exit 0
